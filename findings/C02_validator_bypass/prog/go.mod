module c02bypass

go 1.23
