package main

import (
	"fmt"
	"os"
)

func source1() string        { return "tainted" + fmt.Sprint(len(os.Args)) }
func sink1(s string)         { fmt.Println(s) }
func Validate(s string) bool { return len(s) < 3 }

func main() {
	s := source1()
	if len(os.Args) <= 1 {
		fmt.Println("skip validation") // this arm BYPASSES the validator
	} else {
		if !Validate(s) {
			return
		}
	}
	sink1(s) // EXPECT-FLOW: reached with unvalidated data when len(os.Args) <= 1
}
