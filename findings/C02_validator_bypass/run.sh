#!/bin/bash
# Reproducer of the known finding C02.FindIntraProceduralPath.must_condition:
# the validator condition is collected along ONE control-flow path, so a flow that
# reaches the sink on a path bypassing the validator is dropped.
# exit 0: the flow IS reported (finding no longer reproduces); exit 1: flow missed.
set -u
export GOFLAGS=-mod=mod GOPROXY=off GOSUMDB=off GOTOOLCHAIN=local
here="$(cd "$(dirname "$0")" && pwd)"
tmp="$(mktemp -d)"
(cd /repo && go build -o "$tmp/argot" ./cmd/argot) || { echo "build failed"; rm -rf "$tmp"; exit 2; }
(cd "$here/prog" && "$tmp/argot" taint -config "$here/config.yaml" main.go) > "$tmp/log" 2>&1
if grep -q 'main.go:21' "$tmp/log"; then echo "flow reported"; rm -rf "$tmp"; exit 0; fi
grep -i -E "no taint flows|flows detected" "$tmp/log" | head -3
echo "MISSED: source1 -> sink1 at main.go:21 (path through the then-arm bypasses Validate)"
rm -rf "$tmp"; exit 1
