module dfr
go 1.21
