package main

import "fmt"

type W struct{ n int }

func (w *W) run(k int) {
	for i := 0; i < k; i++ {
		defer fmt.Println("w", i)
	}
}

func drain[T any](xs []T) {
	for _, x := range xs {
		defer fmt.Println(x)
	}
}

func main() {
	drain([]int{1, 2, 3})
	w := &W{}
	f := w.run
	f(2)
}
