#!/bin/bash
# Reproducer of the defect fixed for C07.AnalyzeProgram.nilsafe.ssa.Function.Pkg:
# `argot defer` dereferenced f.Pkg (nil for bound-method wrappers and instances of
# generic functions) when warning about an unbounded defer stack.
# exit 0: the tool terminates normally; exit 1: it panics.
set -u
export GOFLAGS=-mod=mod GOPROXY=off GOSUMDB=off GOTOOLCHAIN=local
here="$(cd "$(dirname "$0")" && pwd)"
tmp="$(mktemp -d)"
(cd "${VERIF_REPO:-/repo}" && go build -o "$tmp/argot" ./cmd/argot) || { echo "build failed"; rm -rf "$tmp"; exit 2; }
(cd "$here/prog" && timeout 300 "$tmp/argot" defer main.go) > "$tmp/log" 2>&1; rc=$?
if grep -q "nil pointer dereference" "$tmp/log"; then grep -m3 -E "panic|defer.go" "$tmp/log"; echo "CRASH: argot defer panics (rc=$rc)"; rm -rf "$tmp"; exit 1; fi
echo "argot defer terminated normally (rc=$rc)"; rm -rf "$tmp"; exit 0
