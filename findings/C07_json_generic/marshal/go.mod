module jm
go 1.21
