package main

import (
	"encoding/json"
	"fmt"
)

type Rec struct{ A string }

func source1() string { return "secret" }
func sink1(s string)   { fmt.Println(s) }

func encode[T any](x T) []byte {
	b, _ := json.Marshal(x)
	return b
}

func main() {
	r := &Rec{A: source1()}
	b := encode(r)
	sink1(string(b))
}
