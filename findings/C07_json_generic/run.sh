#!/bin/bash
# Reproducer of the defect fixed for C07.functionAnalysisState.jsonMarshal/jsonUnmarshal
# .nilsafe.ssa.Function.Pkg: with the escape analysis on and the json summaries
# configured, a json.Marshal / json.Unmarshal call inside an instance of a generic
# function (Parent().Pkg == nil) crashed the escape analysis.
# exit 0: the tool terminates without panicking on both programs; exit 1: it panics.
set -u
export GOFLAGS=-mod=mod GOPROXY=off GOSUMDB=off GOTOOLCHAIN=local
here="$(cd "$(dirname "$0")" && pwd)"
tmp="$(mktemp -d)"
(cd "${VERIF_REPO:-/repo}" && go build -o "$tmp/argot" ./cmd/argot) || { echo "build failed"; rm -rf "$tmp"; exit 2; }
st=0
for d in marshal unmarshal; do
  (cd "$here/$d" && timeout 600 "$tmp/argot" taint -config config.yaml main.go) > "$tmp/log.$d" 2>&1
  if grep -q "nil pointer dereference" "$tmp/log.$d"; then grep -m3 -E "panic|escape.go:6" "$tmp/log.$d"; echo "CRASH: $d"; st=1; else echo "$d: no panic"; fi
done
rm -rf "$tmp"; exit $st
