package main

import (
	"encoding/json"
	"fmt"
)

type Rec struct{ A string }

func source1() string { return `{"A":"secret"}` }
func sink1(s string)   { fmt.Println(s) }

func decode[T any](b []byte, x *T) {
	_ = json.Unmarshal(b, x)
}

func main() {
	r := &Rec{}
	decode([]byte(source1()), r)
	sink1(r.A)
}
