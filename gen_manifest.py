#!/usr/bin/env python3
"""Generates /verif/MANIFEST.json from the table below (kept here so the file stays valid)."""
import json, subprocess

CLAIMED = {
 # id: (design_ref, level text, level note)
 "C01": ("DESIGN.md 4/C01",
   "Proof of function contracts: isHandledBuiltinCall is true exactly for *ssa.Builtin values with a handled name (and error.Error()), never for a user function that merely has a builtin's name; doBuiltinCall transfers whenever the call was declared handled and moves every argument of min/max/complex/len/real/imag/wrapnilchk, append and copy as the property requires; shared with C08: summary edges for every return index and every argument position; markValue propagates a mark to the object a value was derived from for every kind of derived value (slice, interface box, element/field address and projection, load through a pointer whatever the loaded type, map iterator, tuple extraction); addNewPathCandidate records every (source, sink) pair whose nodes have instructions; per-iteration clauses of the traversal taint.Visitor.Visit: a node that matches a sink while tracing is reported and not expanded, filtered and sanitizer nodes are not expanded, an expanded call / bound-variable / closure / synthetic node has its out-edges followed. The end-to-end theorem (every explicit source-to-sink flow is reported) is not proved.",
   "Trusted: as C05 plus SSA lowering facts stated as preconditions (append/complex have two operands). Not decided: visitor dispatch, global stores through IndexAddr (anticipated finding, not yet under contract), soundness of the composition."),
 "C02": ("DESIGN.md 4/C02",
   "Proof of function contracts for the validator half: isValidatorCondition(ts, v, pos) answers true only if the branch `v evaluates to pos` implies that a call matching a validator specification reported success (true / nil error) -- polarity through !, == nil, != nil and tuple extraction proved against axioms stating Go's semantics of those operators; MatchNilCheck recognises exactly x==nil / x!=nil on error values and reports which; SimplePathCondition returns only conditions of If instructions on the given path with the polarity of the successor taken. The clause `every attached condition holds on ALL paths source->destination` is a known finding (5.7, with reproducer). Sanitizer half: in every iteration of the traversal's main loop a node that matches a sanitizer is not expanded (no successor is enqueued) -- a per-iteration clause of taint.Visitor.Visit with iteration-local events. That the data reaching a sink 'was returned by the sanitizer call' in the property's sense, and the visitor's use of the validator conditions inside addNext, are not under contract.",
   "Trusted: as C05; sem_*/acc_* axioms (Go semantics of !, ==nil, !=nil, Extract; acc_call: a matched call that reported success is an accepted validation); assumed contracts of IsMatchingCodeIDWithCallee (true only if the node matched) and FindPathBetweenBlocks (path blocks non-nil); deps axiom if_two_succs. Recursion: partial correctness (termination of the structural recursion not proved)."),
 "C03": ("DESIGN.md 4/C03",
   "Proof of function contracts (thin): backtrace.isBaseCase lets the backward traversal stop at a node (reporting the trace that ends there) only when the node has no intra-procedural incoming edge, and never at a node kind that receives inter-procedural flows (parameter, call, call argument, closure, bound variable, free variable, a read of a global that is written somewhere or any global read under on-demand summarisation, a global write with incoming edges); the function literal inside isBaseCase is executed in place. Per-iteration clauses of the traversal backtrace.Visitor.visit (iteration-local events): a base-case node has its trace recorded (addTrace) and is not expanded; an expanded return-value / call / synthetic / bound-variable node has its incoming edges followed; the jump from a read of a global to its write locations pushes only nodes with a nil call stack. Call-stack unwinding, closure jumps and trace reconstruction are not under contract; the single-tuple-index defect that affects the traversal is the known finding recorded under C17.",
   "Trusted: as C05; getters In()/Global are executed by inlining over the closed world of node kinds."),
 "C04": ("DESIGN.md 4/C04",
   "Proof of function contracts: a code identifier with compiled regexes has all of them compiled (compileRegexes / compileRegexOrLiteral never store nil), the matcher never dereferences nil and its result is exactly the conjunction, field by field, of `reference field empty or its own regex matches` plus Kind equality (both the regex and the literal branch); builtin-name shadowing obligation shared with C01. Callee resolution through points-to sets is not covered.",
   "Trusted: as C05; assumed contracts of regexp.Compile/MustCompile/MatchString (deps.spec); the Interface field clause is outside the claim (cidRef.Interface == \"\")."),
 "C05": ("DESIGN.md 4/C05",
   "Proof of function contracts: FnReadsFrom returns true for every operand slot of every ssa.Instruction kind (slots extracted from go/ssa's Operands methods) except the pure write destinations, FnWritesTo for exactly those; loop invariants and callee contracts discharged by SMT for all inputs; TestAlarmCount / IncrementAndTestAlarms compare the alarm count with max-alarms as mathematical integers and never suppress the first alarm; ShouldBuildSummary builds nothing eagerly in on-demand mode, always builds required summaries and honours the pkg-filter; per-iteration clause of taint.Visitor.Visit: unless summaries may be ignored, reaching a write to a global runs the scan that builds the summaries of the functions reading it, in every summarisation mode. The whole-program theorem (equal verdicts for every option combination) is not proved.",
   "Trusted: go/ssa SSA construction, govc VC generator, SMT solvers, closed world of ssa.Instruction/ssa.Value implementers, SSA objects not mutated by callees. Not decided: pkg-filter/report/log options, visitor-level equality of results."),
 "C07": ("DESIGN.md 4/C07",
   "Proof of function contracts: lang.InstrSwitch never reaches its panic for any of the closed set of ssa.Instruction kinds (MultiConvert excluded by precondition) and dispatches each kind to the visitor method of that kind. Termination/crash-freedom of the analyses as wholes is not proved.",
   "Trusted: as C05. MultiConvert exclusion relies on loaders using ssa.InstantiateGenerics. Fixpoint termination is a whole-history argument outside function contracts."),
 "C08": ("DESIGN.md 4/C08",
   "Proof of function contracts: every Do* method of the intra-procedural analysis transfers the marks of each data operand of its instruction kind to the result (quantified over the index for Phi edges and Select states); simpleTransfer/transfer delegate with the same arguments; addReturnEdge adds the edge for every in-range tuple index and never indexes out of range; addCallArgEdge adds the edge to every argument position of every callee node holding the value (map iteration in arbitrary order); FindArg's contract; callCommonMark (marks at a call) marks every argument of the call, creates one mark per result of the callee's signature with the tuple index of that result and applies every such mark to the call value (per-iteration clauses). The composition (markValue alias recursion, worklist fixpoint) is not proved.",
   "Trusted: as C05; assumed frame of (*SummaryGraph).addEdge (modifies only edge records). Not decided: Pre/mergeInto join, RunForwardIterative closure, makeEdgesAt* coverage."),
 "C09": ("DESIGN.md 4/C09",
   "Proof plus exhaustive table conformance: addParamEdgeByPos returns true and records the edge in both directions exactly when both positions are parameters; addReturnEdgeByPos rejects bad positions; PopulateGraphFromSummary calls them for every listed pair and marks the graph; and for EVERY entry of the standard-library summary table whose key resolves against the installed standard library (318 of 338) every listed position exists in the function's go/types signature (one ground obligation per entry). That a summary over-approximates the library function's behaviour is not decided.",
   "Trusted: as C05; go/types signatures of the installed standard library. 20 keys do not resolve to any function (typos such as flat.DurationVar, ' sync/atomic.StoreInt32'); they are listed in the evidence, not failed."),
 "C10": ("DESIGN.md 4/C10",
   "Proof of function contracts: PopulateGraphFromSummary adds, for every listed pair (i -> argument k, i -> result j) of a user specification, exactly that edge in both directions and nothing for positions outside the signature (addParamEdgeByPos / addReturnEdgeByPos, shared with C09); ResolveCallee returns ONLY the interface contract's summarised function (Type InterfaceContract) when contracts are consulted and the method key has a specification, before looking at the call graph or the implementations; LoadExternalContractSummary returns the function specification stored under the callee's full name (and nil when there is none). That the linked graph is then used unchanged by the traversals, and that function bodies with a specification are never summarised (ShouldBuildSummary with a pkg-filter), is not under contract.",
   "Trusted: as C05; assumed (interface-method contracts) Optional.ValueOr/IsSome/Value are pure; lang.InstrMethodKey pure."),
 "C12": ("DESIGN.md 4/C12",
   "Proof of function contracts: CallGraphReachable returns a set that contains every entry point selected by findCallgraphEntryPoints and is CLOSED under call-graph edges (worklist loop with inductive invariant: an edge out of a reachable function is already followed or its source node is still on the worklist), for every well-formed call graph; ResolveCallee returns the static callee when there is one and otherwise, when contracts are not consulted, EVERY callee of a call-graph edge of the enclosing function at this call site; in the vendored pointer analysis the constraint generators genInvoke / genDynamicCall / genStaticCall copy argument k of a call, for every k, to the position of parameter k in the flattened parameter block (base + sum of the flattened widths of the parameters before it, modulo 2^32; receiver first for static calls) -- the layout the dynamic-call rules of the solver rely on. That the call graph built by the vendored pointer analysis contains every run-time call (C11) is not decided.",
   "Trusted: as C05; precondition cgwf (x/tools callgraph invariant: Nodes[f].Func == f, edges point at canonical nodes) is stated, not proved; Optional accessors assumed pure; analysis.sizeof assumed a pure function of the type (flatten memoises)."),
 "C13": ("DESIGN.md 4/C13",
   "Proof of function contracts (thin): taint.Visitor.checkEscape reports (addNewEscape) every instruction of the visited node's mark map -- iterated in arbitrary order -- that is not a call and whose entry in the context's InstructionLocality is a non-nil rationale (not classified thread-local), for an arbitrary such instruction; addNewEscape records the pair in Flows.Escapes (the map whose non-emptiness makes the tool exit with failure) whenever the source node has an instruction; raiseAlarm and the logger do not touch the locality maps (frames). Together with C14 (instructionLocality never calls an unknown or shared access local). Not under contract: that manageEscapeContexts computes a context for every visited function (missing contexts are reported as errors by the code, not proved), context propagation across calls/closures, and the soundness of the escape graphs (C15 core only).",
   "Trusted: as C05; assumed deps contract log.Logger.Printf modifies nothing; dataflow.Instr pure."),
 "C14": ("DESIGN.md 4/C14",
   "Proof of function contract: escape.instructionLocality returns, for every memory-accessing instruction kind (store, load through any pointer type incl. named ones, channel receive/send, map update/lookup/range/next, type assertion, select), exactly the verdict of derefsAreLocal on the node of the accessed operand, and never classifies an unknown instruction kind as local; EscapeGraph.nodes is immutable after construction (checked frame scan). transferFunction gives every memory-sharing instruction kind its effect (allocation edge, StoreField / LoadField for pointer-like stores, loads, sends, map updates and lookups, WeakAssign for interface changes; a go statement and a panic go through CallUnknown, and the slice a go statement hands to CallUnknown holds the node of EVERY escape-tracked operand at its position); CallUnknown leaves every pointee of every argument Leaked and lowers no status. Soundness of the escape graph w.r.t. executions and schedules is not proved.",
   "Trusted: as C05; assumed contract of NodeGroup.ValueNode (returns the node of the value). Resolve (call-site context) maps the receiver and every nillable argument onto the callee parameter of the matching position (invoke mode shifted by one); known finding 5.12: by-value struct arguments holding pointers are not mapped."),
  "C15": ("DESIGN.md 4/C15",
   "Proof of function contracts: the escape-graph operations are extensive (they never lower a status nor remove a node or edge) and Merge is an upper bound: AddNode adds exactly the missing node with its intrinsic status and keeps the graph well formed; computeEdgeClosure propagates the source's status to the target, never lowers a status, keeps the node set, leaves edges untouched and CLOSES the graph again (every edge that was closed before, and the edge a->b, is closed afterwards; worklist invariant over a map iterated in arbitrary order); AddEdge adds the edge, closes it and keeps closed edges closed; MergeNodeStatus raises n to at least s and keeps closed edges closed; Edges lists only edges of the graph; Merge(g, h) leaves every node of h at least as escaped in g as in h and lowers nothing in g (for disjoint well-formed graphs; object-level frames of all operations proved); LessEqual answers true only if the statuses are pointwise ordered; in EscapeGraph.Call (instantiation of a callee summary, all callees and local closures havocked) the two status tests of one worklist step are upward closed -- load nodes are brought over for every representative known to pre above Local (or unknown to pre and not Local in g), and a Leaked callee node always leaks its representative -- a single-run sufficient condition for monotonicity in the caller's statuses. Idempotence/commutativity/associativity of Merge as graph equalities, the edge part of LessEqual (bit masks) and monotonicity of the ~40 transfer cases and of Call in the EDGES of its inputs are not proved.",
   "Trusted: as C05; assumed deps contracts (fmt.Sprintf modifies nothing)."),
 "C16": ("DESIGN.md 4/C16",
   "Proof of function contracts, for all inputs and all iterations: stackCompare is the lexicographic comparison of (Block, Ins) sequences (functional correctness, safety, termination) and, as lemmas derived from that contract only, a total preorder compatible with content equality (reflexive, antisymmetric, four transitivity laws); stackSetUnion returns a strictly sorted (duplicate-free) set containing exactly the stacks of both arguments, reports sameAsA exactly when every stack of b already occurs in a, and terminates (three merge loops with inductive invariants); stackPushed returns s ++ [(block, ins)] in a fresh array; dataflowTransfer is the identity on non-defer instructions, resets on RunDefers and reports `repeated` exactly when some incoming stack already contains the defer. worklist discipline of the fixpoint driver AnalyzeFunction: a change flag that is set when the propagation to the successors of a block ends is still set at the end of that block's iteration, and the fixpoint loop is left only when no block of the traversal order is flagged. Equality of the computed sets with the sets of path-wise defer sequences (MOP = MFP for this distributive framework) and termination of the outer fixpoint are not proved.",
   "Trusted: as C05; sort.Slice is havoc (the sortedness of the Defer case's result after sort+dedupe is not claimed); heap well-typedness."),
 "C17": ("DESIGN.md 4/C17",
   "Proof of function contracts: addInEdge handles every kind of graph node (closed world of 11) without panicking and records the in-edge; updateEdgeInfo records the edge outgoing with the mark's tuple index AND incoming at the destination (presence in both directions); by-position edges are recorded in both maps (shared with C09). The clause `same tuple index in both directions` is a known finding (5.5). Call-site / closure registration and global location sets are not yet under contract.",
   "Trusted: as C05; getters Out()/In() are executed by inlining their real bodies over the closed world of node kinds."),
 "C18": ("DESIGN.md 4/C18",
   "Proof of function contract: reachability's instruction visitor calls visit on every operand slot of every instruction kind (quantified over the index for variadic slots; loop invariants inferred Houdini-style and checked). Whole-program conservativeness w.r.t. executions is not proved.",
   "Trusted: as C05; assumed contract (*ssa.Call).Common() == &c.Call etc. (deps.spec). Excepted slots: MultiConvert.X, SliceToArrayPointer.X, Defer.DeferStack (cannot hold function values)."),
 "C19": ("DESIGN.md 4/C19",
   "Proof of function contracts: for an arbitrary go instruction of an arbitrary function of the (arbitrarily ordered) input map, findGoFunctions records the launched function when it is a static function or a closure over one (triple nested loop, map iteration modelled as arbitrary order); addGoFunction appends the position and changes no other entry (frame proved). The two remaining launch forms are known findings. The link to run-time crash traces is not proved.",
   "Trusted: as C05. Known findings: invoke-mode and function-value go statements (DESIGN 5.10)."),
}

NA = {
 "C06": "quantifies over goroutine schedules and whole-traversal map iteration orders; a sequential function contract has neither (DESIGN.md section 6)",
 "C11": "soundness of the vendored pointer-analysis solver w.r.t. Go's dynamic semantics; no function-level contract can state points-to(v) ⊇ run-time targets (DESIGN.md section 6)",
 "C20": "data races, deadlocks and goroutine leaks under all interleavings; the VC generator is sequential and has no permission/ownership logic (DESIGN.md section 6)",
}
PENDING = "contracts for this property are not yet written in this revision of /verif (see DESIGN.md section 4 for the plan); not claimed"

def main():
    props = [json.loads(l)["id"] for l in open("/verif/properties.jsonl")]
    commits = subprocess.run(["git","-C","/repo","log","--format=%H %s"],capture_output=True,text=True).stdout.splitlines()
    hooks = [c.split()[0] for c in commits if " verif hook:" in " "+c]
    checks = []
    for pid in props:
        if pid not in CLAIMED: continue
        ref, text, note = CLAIMED[pid]
        checks.append({
          "property_id": pid,
          "quick_cmd": f"./check {pid} quick",
          "thorough_cmd": f"./check {pid} thorough",
          "evidence_file": f"/verif/evidence/{pid}.json",
          "replay_cmd_template": "cat {path}",
          "engine": "govc",
          "level_claimed": {"category": "proof", "text": text, "design_ref": ref},
          "level_note": note,
          "technique": "contract-based deductive verification: weakest-precondition style VCs generated from go/ssa of /repo, contracts in //@ comment files (build tag verif), discharged by z3/cvc5",
        })
    na = []
    for pid in props:
        if pid in CLAIMED: continue
        na.append({"property_id": pid, "reason": NA.get(pid, PENDING)})
    m = {
      "version": 1,
      "setup_cmd": "cd /verif/govc && GOFLAGS=-mod=mod GOPROXY=off GOSUMDB=off GOTOOLCHAIN=local go build -o /verif/bin/govc .",
      "hooks": {
        "guard": "verif",
        "enable": "go build -tags verif (contract files *_contracts_verif.go are comment-only; govc loads /repo with -tags=verif)",
        "baseline_off_cmd": "cd /repo && GOFLAGS=-mod=mod GOPROXY=off GOSUMDB=off go test -vet=off -count=1 -timeout 25m ./...",
        "source_commits": hooks,
        "add_only": True,
      },
      "engines": [{"name": "govc", "path": "/verif/govc", "serves_properties": sorted(CLAIMED), "kind_free_text": "self-built deductive verifier for Go: symbolic execution of go/ssa with cut-point loop invariants, modular callee contracts, ghost event flags, closed-world type tags; SMT back ends z3 5.1.0, z3 4.8.12, cvc5 1.0.3"}],
      "checks": checks,
      "not_applicable": na,
      "notes": "Contracts live in /repo/**/*_contracts_verif.go (build tag verif, comment-only). Known findings: /verif/known_findings.json. Baseline of discharged obligation names: /verif/baseline/. Must-fail corpus: /verif/selftest/mutants.",
    }
    json.dump(m, open("/verif/MANIFEST.json","w"), indent=1)
    print("MANIFEST.json:", len(checks), "checks,", len(na), "not applicable")
main()
