package main

// Calls: events, builtins, contracts of callees, observers, havoc.

import (
	"fmt"
	"go/types"
	"sort"
	"strings"

	"golang.org/x/tools/go/ssa"
)

func shortFuncName(f *ssa.Function) []string {
	// names a contract may use for a static callee
	var out []string
	out = append(out, f.Name())
	if recv := f.Signature.Recv(); recv != nil {
		t := recv.Type()
		if p, ok := t.(*types.Pointer); ok {
			t = p.Elem()
		}
		if n, ok := t.(*types.Named); ok {
			out = append(out, n.Obj().Name()+"."+f.Name())
			if n.Obj().Pkg() != nil {
				out = append(out, n.Obj().Pkg().Name()+"."+n.Obj().Name()+"."+f.Name())
			}
		}
	} else if f.Pkg != nil {
		out = append(out, f.Pkg.Pkg.Name()+"."+f.Name())
	}
	return out
}

// calleeParamTypes returns the types of the SSA-level arguments of the call.
func calleeParamTypes(cc *ssa.CallCommon) []types.Type {
	sig := cc.Signature()
	var out []types.Type
	if !cc.IsInvoke() && sig.Recv() != nil {
		out = append(out, sig.Recv().Type())
	}
	for i := 0; i < sig.Params().Len(); i++ {
		out = append(out, sig.Params().At(i).Type())
	}
	return out
}

// flagMayMatch: could this call raise the event flag (syntactic callee match only)?
func (c *FnCtx) flagMayMatch(fl *Flag, cc *ssa.CallCommon) bool {
	var names []string
	if sc := cc.StaticCallee(); sc != nil {
		names = shortFuncName(sc)
	}
	for _, alt := range strings.Split(fl.callee, "|") {
		alt = strings.TrimSpace(alt)
		if !cc.IsInvoke() {
			for _, v := range c.names[alt] {
				if v == cc.Value {
					return true
				}
			}
			if ld, ok := cc.Value.(*ssa.UnOp); ok {
				for _, v := range c.addrNames[alt] {
					if v == ld.X {
						return true
					}
				}
			}
		}
		for _, n := range names {
			if n == alt {
				return true
			}
		}
		if cc.IsInvoke() {
			if i := strings.LastIndex(alt, "."); i > 0 && alt[i+1:] == cc.Method.Name() {
				return true
			}
		}
	}
	return false
}

// flagTouchedIn: some call inside the loop may raise the flag.
func (c *FnCtx) flagTouchedIn(fl *Flag, li *loopInfo) bool {
	for b := range li.blocks {
		for _, ins := range b.Instrs {
			if ci, ok := ins.(ssa.CallInstruction); ok {
				if c.flagMayMatch(fl, ci.Common()) {
					return true
				}
			}
		}
	}
	return false
}

func (c *FnCtx) eventCall(st *State, ins ssa.Instruction, cc *ssa.CallCommon) map[int]Term {
	if c.dry || len(c.flags) == 0 {
		return nil
	}
	retConds := map[int]Term{}
	var names []string
	if sc := cc.StaticCallee(); sc != nil {
		names = shortFuncName(sc)
	}
	ptypes := calleeParamTypes(cc)
	for _, fl := range c.flags {
		var extra Term = "true"
		matched := false
		for _, alt := range strings.Split(fl.callee, "|") {
			alt = strings.TrimSpace(alt)
			// (a) local name bound to the called value
			if !cc.IsInvoke() {
				for _, v := range c.names[alt] {
					if v == cc.Value {
						matched = true
					}
				}
				// address-taken local (e.g. a recursive closure variable): the call goes through a load of it
				if ld, ok := cc.Value.(*ssa.UnOp); ok {
					for _, v := range c.addrNames[alt] {
						if v == ld.X {
							matched = true
						}
					}
				}
			}
			// (b) static callee by name
			for _, n := range names {
				if n == alt {
					matched = true
				}
			}
			// (c) invoke: recv.Method where recv is a parameter / local name
			if cc.IsInvoke() {
				if i := strings.LastIndex(alt, "."); i > 0 && alt[i+1:] == cc.Method.Name() {
					recvName := alt[:i]
					var rv *Val
					for _, p := range c.fn.Params {
						if p.Name() == recvName {
							rv = c.regs[p]
						}
					}
					if rv != nil {
						matched = true
						extra = eq(c.val(st, cc.Value).S, rv.S)
					}
				}
			}
			if matched {
				break
			}
		}
		if !matched {
			continue
		}
		if len(fl.argT) != len(cc.Args) {
			c.unsupported("event %s: pattern has %d args, call at %s has %d", fl.callee, len(fl.argT), c.where(ins), len(cc.Args))
			continue
		}
		if fl.iter != nil && (c.curBlock == nil || !fl.iter.blocks[c.curBlock]) {
			continue // iteration-local event: only calls inside that loop count
		}
		conds := []Term{extra}
		lazyFail := false
		for i, pt := range fl.argT {
			if pt == "" {
				continue
			}
			if strings.HasPrefix(pt, "lazy:") {
				// evaluate the pattern now, in the state of the call
				env := c.baseEnv(st)
				saveLoop := c.curLoop
				if fl.iter != nil {
					c.curLoop = fl.iter
				}
				if w, isCall := fl.args[i].(*eCall); isCall {
					if id, ok := w.fun.(*eIdent); ok && id.name == "where" && len(w.args) == 2 {
						// where(x, cond): the actual argument, bound to x, satisfies cond
						xv, okx := w.args[0].(*eIdent)
						if !okx {
							lazyFail = true
							c.curLoop = saveLoop
							break
						}
						av := c.val(st, cc.Args[i])
						env.bound = map[string]*Val{xv.name: av}
						ct, err := c.evalBool(w.args[1], env)
						c.curLoop = saveLoop
						if err != nil {
							c.unsupported("event %s: where(...) pattern: %v", fl.callee, err)
							lazyFail = true
							break
						}
						conds = append(conds, ct)
						continue
					}
				}
				pv, err := c.evalSpec(fl.args[i], env)
				c.curLoop = saveLoop
				if err != nil {
					lazyFail = true
					break
				}
				fl.argV[i] = pv
				pt = pv.S
			}
			av := c.val(st, cc.Args[i])
			var at, ptn Term
			at = av.S
			ptn = pt
			var paramT types.Type
			if i < len(ptypes) {
				paramT = ptypes[i]
			}
			pv := fl.argV[i]
			if pv.T == nil {
				if pv.S == "nil" {
					ptn = c.zero(av.T)
				}
			} else {
				aI, pI := c.isIface(av.T), c.isIface(pv.T)
				switch {
				case aI && !pI:
					ptn = c.box(pv)
				case !aI && pI:
					at = c.box(av)
				}
			}
			_ = paramT
			if av.S == "" && av.LV != nil {
				c.unsupported("event %s: l-value argument", fl.callee)
				continue
			}
			conds = append(conds, eq(at, ptn))
		}
		if lazyFail {
			continue
		}
		if fl.ret {
			retConds[fl.id] = c.define(fmt.Sprintf("retc%d", fl.id), "Bool", and(st.pc, and(conds...)))
			continue
		}
		old := st.flags[fl.id]
		if old == "" {
			old = "false"
		}
		st.flags[fl.id] = c.define(fmt.Sprintf("flag%d", fl.id), "Bool", or(old, and(st.pc, and(conds...))))
	}
	return retConds
}

// eventRet records the result of calls matched by retof(...) patterns.
func (c *FnCtx) eventRet(st *State, conds map[int]Term, v ssa.Value) {
	if len(conds) == 0 || v == nil {
		return
	}
	r := c.regs[v]
	if r == nil || r.S == "" {
		return
	}
	for _, fl := range c.flags {
		cond, ok := conds[fl.id]
		if !ok || !fl.ret {
			continue
		}
		old := st.flags[fl.id]
		if old == "" {
			old = c.retInit(fl)
		}
		rs := r.S
		if c.isIface(fl.retT) && !c.isIface(r.T) {
			rs = c.box(r)
		}
		st.flags[fl.id] = c.define(fmt.Sprintf("ret%d", fl.id), fl.sort, ite(cond, rs, old))
	}
}

// ifaceSpec finds a contract written on the (possibly generic) interface method invoked by cc.
func (c *FnCtx) ifaceSpec(cc *ssa.CallCommon) *FuncSpec {
	if c.specs == nil || !cc.IsInvoke() {
		return nil
	}
	n, ok := types.Unalias(cc.Value.Type()).(*types.Named)
	if !ok || n.Obj().Pkg() == nil {
		return nil
	}
	return c.specs.funcs[n.Obj().Pkg().Path()+"#"+n.Obj().Name()+"."+cc.Method.Name()]
}

func (c *FnCtx) specOf(f *ssa.Function) *FuncSpec {
	if f != nil && f.Origin() != nil {
		f = f.Origin() // instance of a generic function: the contract is written on the generic declaration
	}
	if c.specs == nil || f == nil || f.Pkg == nil {
		return nil
	}
	names := shortFuncName(f)[:min(2, len(shortFuncName(f)))]
	if f.Signature.Recv() != nil && len(names) == 2 {
		// a method binds to `Type.Method`; the bare name only when no package-level
		// function of that name exists (else the contract belongs to that function)
		if s := c.specs.funcs[f.Pkg.Pkg.Path()+"#"+names[1]]; s != nil {
			return s
		}
		if f.Pkg.Func(names[0]) != nil {
			return nil
		}
	}
	for _, n := range names {
		if s := c.specs.funcs[f.Pkg.Pkg.Path()+"#"+n]; s != nil {
			return s
		}
	}
	return nil
}

func isStablePkgFunc(f *ssa.Function) bool {
	if f == nil {
		return false
	}
	if f.Pkg != nil {
		return stablePkgs[f.Pkg.Pkg.Path()]
	}
	if o := f.Object(); o != nil && o.Pkg() != nil {
		return stablePkgs[o.Pkg().Path()]
	}
	return false
}

// observersDenied: functions of the stable packages that are NOT side-effect-free observers.
var observersDenied = map[string]bool{
	"Operands": true, "WriteTo": true, "SetDebugMode": true, "Build": true, "CreatePackage": true,
	"RuntimeTypes": true, "MethodValue": true, "NewFunction": true, "Walk": true, "Inspect": true,
}

func (c *FnCtx) setResult(v ssa.Value, r *Val) {
	if v != nil {
		c.regs[v] = r
	}
}

func (c *FnCtx) doCall(st *State, v ssa.Value, cc *ssa.CallCommon, ins ssa.Instruction) {
	conds := c.eventCall(st, ins, cc)
	c.doCallInner(st, v, cc, ins)
	c.eventRet(st, conds, v)
}

func (c *FnCtx) doCallInner(st *State, v ssa.Value, cc *ssa.CallCommon, ins ssa.Instruction) {
	var resT types.Type
	if v != nil {
		resT = v.Type()
	}
	name := "call"
	if v != nil {
		name = v.Name()
	}
	fallback := func(why string) {
		c.havocAll(st)
		if v != nil {
			c.setResult(v, c.freshOf(st, resT, name))
		}
	}
	if b, ok := cc.Value.(*ssa.Builtin); ok && !cc.IsInvoke() {
		c.doBuiltin(st, v, b, cc, ins)
		return
	}
	if cc.IsInvoke() {
		recv := c.val(st, cc.Value)
		c.safety(st, ins, "nil-invoke", not(eq(app("itag", recv.S), "0")))
		m := cc.Method
		{
			var dargs []*Val
			for _, a := range cc.Args {
				dargs = append(dargs, c.val(st, a))
			}
			if r, ok := c.dispatchInline(st, recv, m.Name(), dargs); ok {
				c.setResult(v, c.asResult(r, resT))
				return
			}
		}
		if m.Pkg() != nil && stablePkgs[m.Pkg().Path()] && !observersDenied[m.Name()] {
			args := []*Val{recv}
			for _, a := range cc.Args {
				args = append(args, c.val(st, a))
			}
			full := "(" + typeKey(cc.Value.Type()) + ")." + m.Name()
			c.trusted["observer: "+full+" is a deterministic side-effect-free function of its arguments"] = true
			r := c.applyPure(st, full, m.Type().(*types.Signature), cc.Value.Type(), args)
			c.setResult(v, c.asResult(r, resT))
			return
		}
		if sp := c.ifaceSpec(cc); sp != nil && sp.pure && len(sp.requires) == 0 {
			// assumed: a deterministic, side-effect-free function of receiver and arguments
			args := []*Val{recv}
			for _, a := range cc.Args {
				args = append(args, c.val(st, a))
			}
			full := "(" + typeKey(cc.Value.Type()) + ")." + m.Name()
			c.trusted["assumed interface-method contract: "+sp.pkg+"."+sp.name+" (pure)"] = true
			r := c.applyPure(st, full, m.Type().(*types.Signature), cc.Value.Type(), args)
			c.setResult(v, c.asResult(r, resT))
			return
		}
		if sp := c.ifaceSpec(cc); sp != nil && sp.hasModifies && len(sp.modifies) == 0 && len(sp.requires) == 0 {
			// assumed contract on the interface method: no pre-existing object changes
			c.trusted["assumed interface-method contract: "+sp.pkg+"."+sp.name+" (modifies nothing)"] = true
			nr := c.fresh("nextref", "Int")
			c.assume(app("<=", st.nextRef, nr))
			st.nextRef = nr
			if v != nil {
				c.setResult(v, c.freshOf(st, resT, name))
			}
			return
		}
		fallback("invoke")
		return
	}
	if mc, ok := cc.Value.(*ssa.MakeClosure); ok && !cc.IsInvoke() {
		// function literal called where it is created: execute its body in place
		var cargs []*Val
		for _, a := range cc.Args {
			cargs = append(cargs, c.val(st, a))
		}
		if rs, ok := c.inlineClosureCall(st, mc, cargs); ok {
			if v != nil {
				switch len(rs) {
				case 0:
				case 1:
					c.setResult(v, c.asResult(rs[0], resT))
				default:
					c.regs[v] = &Val{T: resT, S: "", Tup: rs}
				}
			}
			return
		}
	}
	callee := cc.StaticCallee()
	if callee == nil {
		fallback("dynamic")
		return
	}
	var args []*Val
	for _, a := range cc.Args {
		args = append(args, c.val(st, a))
	}
	ignoreContract := c.spec != nil && (c.spec.options["havoc:"+callee.Name()] || c.spec.options["havoc:*"])
	if ignoreContract && !c.spec.options["havoc:"+callee.Name()] {
		// havoc:* keeps pure callees without preconditions: they are just function symbols
		if sp := c.specOf(callee); sp != nil && sp.pure && len(sp.requires) == 0 {
			ignoreContract = false
		}
		// `option keep:<callee>` keeps the contract of one callee under havoc:*
		if c.spec.options["keep:"+callee.Name()] {
			ignoreContract = false
		}
	}
	if sp := c.specOf(callee); !ignoreContract && sp != nil && callee != nil && (len(sp.requires)+len(sp.ensures) > 0 || sp.hasModifies || sp.pure) {
		c.applyContract(st, v, callee, sp, args, ins)
		return
	}
	if r, ok := c.inlineSimple(st, callee, args); ok {
		c.setResult(v, c.asResult(r, resT))
		return
	}
	if isStablePkgFunc(callee) && !observersDenied[callee.Name()] && callee.Object() != nil {
		if f, ok := callee.Object().(*types.Func); ok {
			sig := f.Type().(*types.Signature)
			var recvT types.Type
			if sig.Recv() != nil {
				recvT = sig.Recv().Type()
			}
			full := pureName(f, recvT)
			c.trusted["observer: "+full+" is a deterministic side-effect-free function of its arguments"] = true
			r := c.applyPure(st, full, sig, recvT, args)
			c.setResult(v, c.asResult(r, resT))
			return
		}
	}
	fallback("no contract")
}

func (c *FnCtx) asResult(r *Val, resT types.Type) *Val {
	if resT == nil {
		return r
	}
	if _, ok := resT.(*types.Tuple); ok {
		return r
	}
	return &Val{T: resT, S: r.S, Tup: r.Tup}
}

// applyPureReads: pure functions of /repo with a `reads` clause take the
// current value of those heaps as extra arguments, so modifying what they read
// changes their value.
func (c *FnCtx) applyPureReads(st *State, full string, f *types.Func, sig *types.Signature, recvT types.Type, args []*Val) *Val {
	if f.Pkg() != nil && !stablePkgs[f.Pkg().Path()] {
		// find a contract
		var sp *FuncSpec
		if c.specs != nil {
			name := f.Name()
			if sig.Recv() != nil {
				t := sig.Recv().Type()
				if p, ok := t.(*types.Pointer); ok {
					t = p.Elem()
				}
				if n, ok := t.(*types.Named); ok {
					name = n.Obj().Name() + "." + f.Name()
				}
			}
			sp = c.specs.funcs[f.Pkg().Path()+"#"+name]
		}
		if sp == nil || !sp.pure {
			if !strings.HasPrefix(f.Pkg().Path(), repoMod) {
				c.trusted["observer: "+full+" is a deterministic side-effect-free function of its arguments"] = true
			} else {
				c.efail("function %s used in a contract is not declared pure", full)
			}
		} else if len(sp.reads) > 0 {
			hs, err := c.heapDesignators(f.Pkg(), sp.reads)
			if err != nil {
				c.efail("reads clause of %s: %v", full, err)
			}
			var ks []string
			for k := range hs {
				ks = append(ks, k)
			}
			sort.Strings(ks)
			return c.applyPureExtra(st, full, sig, recvT, args, ks)
		}
	} else if f.Pkg() != nil {
		c.trusted["observer: "+full+" is a deterministic side-effect-free function of its arguments"] = true
	}
	return c.applyPure(st, full, sig, recvT, args)
}

func (c *FnCtx) applyPureExtra(st *State, full string, sig *types.Signature, recvT types.Type, args []*Val, heaps []string) *Val {
	var sorts []string
	var ts []Term
	ptypes := []types.Type{}
	if recvT != nil {
		ptypes = append(ptypes, recvT)
	}
	for i := 0; i < sig.Params().Len(); i++ {
		ptypes = append(ptypes, sig.Params().At(i).Type())
	}
	for i, a := range args {
		pt := ptypes[i]
		sorts = append(sorts, c.sortOf(pt))
		if a.T == nil {
			if a.S == "nil" {
				ts = append(ts, c.zero(pt))
			} else {
				ts = append(ts, a.S)
			}
		} else {
			ts = append(ts, c.coerce(a, pt))
		}
	}
	for _, h := range heaps {
		srt, ok := c.heapSort[h]
		if !ok {
			c.efail("reads heap %s not known", h)
		}
		// the heap is passed as an integer token naming this heap VALUE (one token per
		// heap term), not as an array: arrays as arguments of uninterpreted functions
		// send z3's extensional array theory into very expensive reasoning
		sorts = append(sorts, "Int")
		ts = append(ts, c.heapToken(c.heapGet(st, h, srt)))
	}
	res := sig.Results()
	if res.Len() != 1 {
		c.efail("pure function %s must have exactly one result", full)
	}
	f := c.funcSym(full, sorts, c.sortOf(res.At(0).Type()), -1)
	v := c.mk(res.At(0).Type(), app(f, ts...))
	c.pureResultFacts(f, sorts, res.At(0).Type())
	return v
}

// applyContract replaces a call by the callee's contract.
func (c *FnCtx) applyContract(st *State, v ssa.Value, callee *ssa.Function, sp *FuncSpec, args []*Val, ins ssa.Instruction) {
	pre := st.clone()
	env := &evalEnv{vars: map[string]*Val{}, st: st, old: pre, pkg: callee.Pkg.Pkg, callee: true}
	ptypes := []types.Type{}
	for _, p := range callee.Params {
		ptypes = append(ptypes, p.Type())
	}
	for i, p := range callee.Params {
		if i < len(args) {
			env.vars[p.Name()] = &Val{T: p.Type(), S: c.coerce(args[i], p.Type()), LV: args[i].LV}
		}
	}
	res := callee.Signature.Results()
	for i := 0; i < res.Len(); i++ {
		env.resNm = append(env.resNm, res.At(i).Name())
	}
	savedGhosts := c.ghosts
	c.ghosts = map[string]*Val{}
	defer func() { c.ghosts = savedGhosts }()
	if len(sp.ghosts) > 0 {
		// ghost-parameterised contracts cannot be instantiated automatically
		c.unsupported("call to %s whose contract has ghost variables", callee.Name())
	}
	for i, r := range sp.requires {
		t, err := c.evalBool(r.expr, env)
		if err != nil {
			c.unsupported("requires of %s at call %s: %v", callee.Name(), c.where(ins), err)
			continue
		}
		lbl := r.label
		if lbl == "" {
			lbl = fmt.Sprintf("requires%d", i+1)
		}
		if c.spec != nil && !c.dry {
			c.emit(&Obligation{Name: fmt.Sprintf("%s.call.%s.%s", c.spec.oname(), callee.Name(), lbl), Kind: "requires", Clause: r.src, Where: c.where(ins), Hyp: st.pc, Goal: t})
			// execution continues under the precondition (never assumed globally:
			// the obligation itself must not be able to use it)
			st.pc = c.define("pc.req", "Bool", and(st.pc, t))
		}
	}
	// frame
	if sp.pure {
		// nothing changes
	} else if sp.hasModifies && len(sp.modifies) == 0 {
		// no pre-existing object changes (proved on the callee side: frame obligations);
		// the callee may allocate: its new objects get references from a fresh range
		nr := c.fresh("nextref", "Int")
		c.assume(app("<=", st.nextRef, nr))
		st.nextRef = nr
	} else if sp.hasModifies {
		hs, err := c.heapDesignators(callee.Pkg.Pkg, sp.modifies)
		if err != nil || hs["*"] {
			c.havocAll(st)
		} else {
			var ks []string
			for k := range hs {
				ks = append(ks, k)
			}
			sort.Strings(ks)
			for _, k := range ks {
				srt, ok := c.heapSort[k]
				if !ok {
					continue
				}
				st.heaps[k] = c.fresh(c.heapSym(k), srt)
				if c.writesB != nil && c.curBlock != nil {
					if c.writesB[c.curBlock] == nil {
						c.writesB[c.curBlock] = map[string]bool{}
					}
					c.writesB[c.curBlock][k] = true
				}
			}
			nr := c.fresh("nextref", "Int")
			c.assume(app("<=", st.nextRef, nr))
			st.nextRef = nr
		}
	} else {
		c.havocAll(st)
	}
	// result
	var resVals []*Val
	if sp.pure && res.Len() == 1 && callee.Object() != nil {
		f := callee.Object().(*types.Func)
		sig := f.Type().(*types.Signature)
		var recvT types.Type
		if sig.Recv() != nil {
			recvT = sig.Recv().Type()
		}
		var r *Val
		if err := c.try(func() { r = c.applyPureReads(pre, pureName(f, recvT), f, sig, recvT, args) }); err != nil {
			c.unsupported("pure call %s: %v", callee.Name(), err)
			r = c.freshOf(st, res.At(0).Type(), "res."+callee.Name())
		}
		resVals = []*Val{r}
	} else {
		for i := 0; i < res.Len(); i++ {
			resVals = append(resVals, c.freshOf(st, res.At(i).Type(), fmt.Sprintf("res.%s.%d", callee.Name(), i)))
		}
	}
	env.result = resVals
	env.st = st
	// kinds/slots clauses of the callee expand to ordinary ensures
	if !sp.expandedDone {
		sp.expandedDone = true
		for _, sc := range sp.slots {
			if sc.instance {
				continue
			}
			tmp := newFnCtx(c.L, c.u, callee, sp, c.specs)
			cls, err := tmp.expandSlots(sc)
			if err != nil {
				c.unsupported("contract of %s: %v", callee.Name(), err)
				continue
			}
			sp.expanded = append(sp.expanded, cls...)
		}
	}
	allEns := append(append([]*clause{}, sp.ensures...), sp.expanded...)
	if c.spec != nil && c.spec.opaque[callee.Name()] {
		allEns = nil
	}
	for _, e := range allEns {
		if e.cover {
			continue
		}
		if hasCalled(e.expr) {
			continue // event postconditions talk about the callee's own callees
		}
		t, err := c.evalBool(e.expr, env)
		if err != nil {
			c.unsupported("ensures of %s at call %s: %v", callee.Name(), c.where(ins), err)
			continue
		}
		c.assume(implies(st.pc, t))
	}
	if sp.assumeOnly {
		c.trusted["assumed contract: "+sp.pkg+"."+sp.name] = true
	}
	if v != nil {
		switch len(resVals) {
		case 0:
			c.regs[v] = &Val{T: v.Type()}
		case 1:
			c.regs[v] = &Val{T: v.Type(), S: resVals[0].S}
		default:
			c.regs[v] = &Val{T: v.Type(), Tup: resVals}
		}
	}
}

func hasCalled(e specExpr) bool {
	found := false
	walkSpec(e, func(x specExpr) {
		if call, ok := x.(*eCall); ok {
			if id, ok := call.fun.(*eIdent); ok && (id.name == "called" || id.name == "retof") {
				found = true
			}
		}
	})
	return found
}

func (c *FnCtx) doBuiltin(st *State, v ssa.Value, b *ssa.Builtin, cc *ssa.CallCommon, ins ssa.Instruction) {
	var args []*Val
	for _, a := range cc.Args {
		args = append(args, c.val(st, a))
	}
	name := "bi"
	if v != nil {
		name = v.Name()
	}
	switch b.Name() {
	case "len":
		switch types.Unalias(cc.Args[0].Type()).Underlying().(type) {
		case *types.Slice:
			c.setResult(v, c.mk(intT, app("s_len", args[0].S)))
		case *types.Basic:
			c.setResult(v, c.mk(intT, app("str_len", args[0].S)))
		case *types.Map:
			c.setResult(v, c.mk(intT, c.mapLen(st, args[0])))
		default:
			c.setResult(v, c.freshOf(st, intT, name))
		}
	case "cap":
		if _, ok := types.Unalias(cc.Args[0].Type()).Underlying().(*types.Slice); ok {
			c.setResult(v, c.mk(intT, app("s_cap", args[0].S)))
		} else {
			c.setResult(v, c.freshOf(st, intT, name))
		}
	case "append":
		c.doAppend(st, v, cc, args, ins)
	case "delete":
		m, k := args[0], args[1]
		K, V := mapKV(cc.Args[0].Type())
		dn, ds, _, _ := c.mapHeaps(K, V)
		d := c.heapGet(st, dn, ds)
		c.heapSet(st, dn, ds, app("store", d, m.S, app("store", app("select", d, m.S), c.coerce(k, K), "false")))
	case "copy":
		// destination elements become unknown
		if sl, ok := types.Unalias(cc.Args[0].Type()).Underlying().(*types.Slice); ok {
			hn, hs := c.elemHeap(sl.Elem())
			c.heapGet(st, hn, hs)
			c.heapSet(st, hn, hs, c.fresh(c.heapSym(hn), hs))
		}
		c.setResult(v, c.freshOf(st, intT, name))
	case "min", "max":
		if _, ok := isIntT(cc.Args[0].Type()); ok && len(args) >= 1 {
			t := args[0].S
			for _, a := range args[1:] {
				if b.Name() == "min" {
					t = ite(app("<", a.S, t), a.S, t)
				} else {
					t = ite(app(">", a.S, t), a.S, t)
				}
			}
			c.setResult(v, c.mk(v.Type(), c.define(name, "Int", t)))
		} else if v != nil {
			c.setResult(v, c.freshOf(st, v.Type(), name))
		}
	case "print", "println", "ssa:wrapnilchk":
		if v != nil {
			if b.Name() == "ssa:wrapnilchk" {
				c.setResult(v, &Val{T: v.Type(), S: args[0].S})
			} else {
				c.setResult(v, &Val{T: v.Type()})
			}
		}
	case "panic":
		if c.spec != nil && (c.spec.nopanic || c.spec.safety) && !c.dry {
			c.emit(&Obligation{Name: fmt.Sprintf("%s.nopanic", c.spec.oname()), Kind: "nopanic", Clause: "explicit panic unreachable", Where: c.where(ins), Hyp: st.pc, Goal: "false"})
		}
	default:
		if v != nil {
			c.setResult(v, c.freshOf(st, v.Type(), name))
		}
	}
}

// doAppend models append exactly for the single-slice-argument form:
// in place when len+n <= cap, otherwise a fresh array with the old prefix copied.
func (c *FnCtx) doAppend(st *State, v ssa.Value, cc *ssa.CallCommon, args []*Val, ins ssa.Instruction) {
	sl, ok := types.Unalias(cc.Args[0].Type()).Underlying().(*types.Slice)
	if !ok || len(args) != 2 {
		c.setResult(v, c.freshOf(st, v.Type(), v.Name()))
		return
	}
	if _, isStr := types.Unalias(cc.Args[1].Type()).Underlying().(*types.Basic); isStr {
		c.setResult(v, c.freshOf(st, v.Type(), v.Name()))
		return
	}
	if args[1].Virt != nil {
		c.doAppendVirt(st, v, sl, args[0], args[1].Virt)
		return
	}
	s, t := args[0].S, args[1].S
	el := sl.Elem()
	es := c.sortOf(el)
	hn, hs := c.elemHeap(el)
	h := c.heapGet(st, hn, hs)
	n := app("s_len", t)
	newLen := app("+", app("s_len", s), n)
	inPlace := c.define("app.inplace", "Bool", app("<=", newLen, app("s_cap", s)))
	fr := c.allocRef(st, v.Name())
	newCap := c.fresh("app.cap", "Int")
	c.assume(app(">=", newCap, newLen))
	res := c.fresh("app."+v.Name(), "Slice")
	c.assume(eq(res, ite(and(inPlace, not(eq(n, "0"))),
		app("mk_slice", app("s_arr", s), app("s_off", s), newLen, app("s_cap", s)),
		ite(eq(n, "0"), s, app("mk_slice", fr, "0", newLen, newCap)))))
	// new heap: target array has old prefix, then the appended elements
	nh := c.fresh(c.heapSym(hn), hs)
	tgt := app("s_arr", res)
	toff := app("s_off", res)
	srcArr := app("select", h, app("s_arr", s))
	addArr := app("select", h, app("s_arr", t))
	newArr := app("select", nh, tgt)
	// other arrays unchanged
	c.assume(fmt.Sprintf("(forall ((r Int)) (! (=> (not (= r %s)) (= (select %s r) (select %s r))) :pattern ((select %s r))))", tgt, nh, h, nh))
	// the axioms are indexed by ABSOLUTE cell position p so that any read of the new
	// array triggers them (patterns with index arithmetic do not E-match)
	// prefix: cells [toff, toff+len s) hold the old elements
	c.assume(fmt.Sprintf("(forall ((p Int)) (! (=> (and (<= %s p) (< p (+ %s (s_len %s)))) (= (select %s p) (select %s (+ (s_off %s) (- p %s))))) :pattern ((select %s p))))", toff, toff, s, newArr, srcArr, s, toff, newArr))
	// appended: cells [toff+len s, toff+len s+n) hold the added elements
	c.assume(fmt.Sprintf("(forall ((p Int)) (! (=> (and (<= (+ %s (s_len %s)) p) (< p (+ %s (s_len %s) %s))) (= (select %s p) (select %s (+ (s_off %s) (- p (+ %s (s_len %s))))))) :pattern ((select %s p))))", toff, s, toff, s, n, newArr, addArr, t, toff, s, newArr))
	// in-place: cells outside [off+len, off+len+n) of the same array unchanged
	c.assume(implies(and(inPlace, not(eq(n, "0"))), fmt.Sprintf("(forall ((i Int)) (! (=> (or (< i (+ (s_off %s) (s_len %s))) (>= i (+ (s_off %s) %s))) (= (select %s i) (select %s i))) :pattern ((select %s i))))", s, s, s, newLen, newArr, srcArr, newArr)))
	c.appendAtAxioms(nh, h, hs, res, s, func(k Term) Term { return c.at(h, hs, t, k) }, n, nil)
	c.assume(implies(eq(n, "0"), eq(nh, h)))
	_ = es
	c.heapSet(st, hn, hs, nh)
	c.setResult(v, c.mk(v.Type(), res))
}

// heapToken returns the integer constant naming a heap term.
func (c *FnCtx) heapToken(heapTerm Term) Term {
	if c.heapTok == nil {
		c.heapTok = map[string]Term{}
	}
	if t, ok := c.heapTok[heapTerm]; ok {
		return t
	}
	n := "hv." + sym(heapTerm)
	if len(n) > 80 || c.declared[n] {
		n = fmt.Sprintf("hv.%d", len(c.heapTok))
	}
	c.declare(n, fmt.Sprintf("(declare-const %s Int)", n))
	c.heapTok[heapTerm] = n
	return n
}

// doAppendVirt: append(s, x1, ..., xn) with the added elements given directly
// (the varargs temporary of go/ssa is never materialised in the heap).
func (c *FnCtx) doAppendVirt(st *State, v ssa.Value, sl *types.Slice, sv *Val, elems []*Val) {
	s := sv.S
	el := sl.Elem()
	hn, hs := c.elemHeap(el)
	h := c.heapGet(st, hn, hs)
	n := len(elems)
	nT := fmt.Sprintf("%d", n)
	newLen := app("+", app("s_len", s), nT)
	inPlace := c.define("app.inplace", "Bool", app("<=", newLen, app("s_cap", s)))
	fr := c.allocRef(st, v.Name())
	newCap := c.fresh("app.cap", "Int")
	c.assume(app(">=", newCap, newLen))
	res := c.fresh("app."+v.Name(), "Slice")
	c.assume(eq(res, ite(inPlace,
		app("mk_slice", app("s_arr", s), app("s_off", s), newLen, app("s_cap", s)),
		app("mk_slice", fr, "0", newLen, newCap))))
	nh := c.fresh(c.heapSym(hn), hs)
	tgt := app("s_arr", res)
	toff := app("s_off", res)
	srcArr := app("select", h, app("s_arr", s))
	newArr := app("select", nh, tgt)
	c.assume(fmt.Sprintf("(forall ((r Int)) (! (=> (not (= r %s)) (= (select %s r) (select %s r))) :pattern ((select %s r))))", tgt, nh, h, nh))
	c.assume(fmt.Sprintf("(forall ((p Int)) (! (=> (and (<= %s p) (< p (+ %s (s_len %s)))) (= (select %s p) (select %s (+ (s_off %s) (- p %s))))) :pattern ((select %s p))))", toff, toff, s, newArr, srcArr, s, toff, newArr))
	for k, e := range elems {
		c.assume(eq(app("select", newArr, app("+", toff, app("s_len", s), fmt.Sprintf("%d", k))), e.S))
	}
	c.assume(implies(inPlace, fmt.Sprintf("(forall ((i Int)) (! (=> (or (< i (+ (s_off %s) (s_len %s))) (>= i (+ (s_off %s) %s))) (= (select %s i) (select %s i))) :pattern ((select %s i))))", s, s, s, newLen, newArr, srcArr, newArr)))
	var evs []Term
	for _, e := range elems {
		evs = append(evs, e.S)
	}
	c.appendAtAxioms(nh, h, hs, res, s, nil, nT, evs)
	c.heapSet(st, hn, hs, nh)
	c.setResult(v, c.mk(v.Type(), res))
}

// appendAtAxioms states the effect of append at the level of slice elements
// at.H(s, i) (no index arithmetic in triggers): the result keeps the old elements,
// then holds the added ones; slices on other arrays read the same in both heaps.
func (c *FnCtx) appendAtAxioms(nh, h Term, hs string, res, s Term, added func(k Term) Term, n Term, elems []Term) {
	atN := func(x, i Term) Term { return c.at(nh, hs, x, i) }
	atO := func(x, i Term) Term { return c.at(h, hs, x, i) }
	// prefix
	if c.spec != nil && c.spec.options["append_both"] {
		// also instantiate from the OLD slice's elements (needed to carry `exists k :: s[k] == x` across an append)
		c.assume(fmt.Sprintf("(forall ((i Int)) (! (=> (and (<= 0 i) (< i (s_len %s))) (= %s %s)) :pattern (%s) :pattern (%s)))", s, atN(res, "i"), atO(s, "i"), atN(res, "i"), atO(s, "i")))
	} else {
		c.assume(fmt.Sprintf("(forall ((i Int)) (! (=> (and (<= 0 i) (< i (s_len %s))) (= %s %s)) :pattern (%s)))", s, atN(res, "i"), atO(s, "i"), atN(res, "i")))
	}
	// added elements
	if elems != nil {
		for k, e := range elems {
			c.assume(eq(atN(res, app("+", app("s_len", s), fmt.Sprintf("%d", k))), e))
		}
	} else if added != nil {
		c.assume(fmt.Sprintf("(forall ((i Int)) (! (=> (and (<= (s_len %s) i) (< i (+ (s_len %s) %s))) (= %s %s)) :pattern (%s)))", s, s, n, atN(res, "i"), added(app("-", "i", app("s_len", s))), atN(res, "i")))
	}
	// slices backed by other arrays are unaffected
	c.assume(fmt.Sprintf("(forall ((x Slice) (i Int)) (! (=> (not (= (s_arr x) (s_arr %s))) (= %s %s)) :pattern (%s)))", res, atN("x", "i"), atO("x", "i"), atN("x", "i")))
}
