package main

// Driver: generate, discharge, judge, report.

import (
	"context"
	"encoding/json"
	"fmt"
	"go/types"
	"os"
	"path/filepath"
	"regexp"
	"sort"
	"strings"
	"sync"
	"time"

	"golang.org/x/tools/go/ssa"
)

var workDir = "/verif/work"
var verifDir = "/verif"

type KnownFinding struct {
	Property   string `json:"property"`
	Obligation string `json:"obligation"` // base name (without @where)
	What       string `json:"what"`
	Witness    string `json:"witness,omitempty"`
	Section    string `json:"design_section,omitempty"`
}

type KnownFile struct {
	Findings []KnownFinding `json:"findings"`
	Fixed    []string       `json:"fixed"`
}

func baseName(n string) string {
	if i := strings.Index(n, "@"); i >= 0 {
		return n[:i]
	}
	return n
}

func loadKnown() *KnownFile {
	kf := &KnownFile{}
	b, err := os.ReadFile(filepath.Join(verifDir, "known_findings.json"))
	if err == nil {
		json.Unmarshal(b, kf)
	}
	return kf
}

type Baseline struct {
	Property    string   `json:"property"`
	Obligations []string `json:"obligations"` // base names discharged on the unchanged tree
}

func loadBaseline(prop string) *Baseline {
	b, err := os.ReadFile(filepath.Join(verifDir, "baseline", prop+".json"))
	if err != nil {
		return nil
	}
	bl := &Baseline{}
	if json.Unmarshal(b, bl) != nil {
		return nil
	}
	return bl
}

// contractPackages scans /repo for *_contracts_verif.go mentioning the property.
func contractPackages(prop string) ([]string, error) {
	var dirs []string
	seen := map[string]bool{}
	re := regexp.MustCompile(`(?m)^//@\s*property\s.*\b` + prop + `\b`)
	err := filepath.Walk(repoDir, func(p string, info os.FileInfo, err error) error {
		if err != nil {
			return nil
		}
		if info.IsDir() {
			if info.Name() == ".git" || info.Name() == "testdata" {
				return filepath.SkipDir
			}
			return nil
		}
		if !strings.HasSuffix(p, "_contracts_verif.go") {
			return nil
		}
		b, err := os.ReadFile(p)
		if err != nil {
			return nil
		}
		if prop == "" || re.Match(b) {
			d := filepath.Dir(p)
			if !seen[d] {
				seen[d] = true
				rel, _ := filepath.Rel(repoDir, d)
				dirs = append(dirs, "./"+rel)
			}
		}
		return nil
	})
	sort.Strings(dirs)
	return dirs, err
}

func hasProp(props []string, p string) bool {
	for _, x := range props {
		if x == p {
			return true
		}
	}
	return false
}

type FuncReport struct {
	Func        string   `json:"func"`
	Package     string   `json:"package"`
	Obligations int      `json:"obligations"`
	Discharged  int      `json:"discharged"`
	Unsupported []string `json:"unsupported,omitempty"`
	Candidates  int      `json:"auto_invariant_candidates,omitempty"`
	Alive       int      `json:"auto_invariants_kept,omitempty"`
	GenSecs     float64  `json:"vcgen_secs"`
	Bound       bool     `json:"bound"`
}

type runResult struct {
	obls    []*Obligation
	funcs   []*FuncReport
	trusted map[string]bool
	errs    []string
	tags    int
	ctxs    map[*Obligation]*FnCtx
	extra   map[string]any
}

func (c *FnCtx) script(o *Obligation, extra []Term) string {
	return c.scriptAt(o, extra, nil)
}

// scriptAtAny: like scriptAt, keeping the assumptions relevant for ANY of the blocks.
func (c *FnCtx) scriptAtAny(o *Obligation, extra []Term, ats []*ssa.BasicBlock) string {
	c.atAny = ats
	defer func() { c.atAny = nil }()
	var first *ssa.BasicBlock
	for _, b := range ats {
		if b != nil {
			first = b
			break
		}
	}
	return c.scriptAt(o, extra, first)
}

func (c *FnCtx) scriptAt(o *Obligation, extra []Term, at *ssa.BasicBlock) string {
	var sb strings.Builder
	sb.WriteString(prelude)
	for _, d := range c.typeDecls {
		sb.WriteString(d)
		sb.WriteString("\n")
	}
	for _, d := range c.decls {
		sb.WriteString(d)
		sb.WriteString("\n")
	}
	// implements facts
	var preds []string
	for p := range c.implUsed {
		preds = append(preds, p)
	}
	sort.Strings(preds)
	for _, p := range preds {
		I := c.implUsed[p]
		for i, T := range c.u.tagTypes {
			sb.WriteString(fmt.Sprintf("(assert (= (%s %d) %v))\n", p, i+1, implementsType(T, I)))
		}
	}
	if len(c.strConst) > 0 {
		var ns []string
		for _, n := range c.strConst {
			ns = append(ns, n)
		}
		sort.Strings(ns)
		ns = append(ns, "str_empty")
		sb.WriteString("(assert (distinct " + strings.Join(ns, " ") + "))\n")
	}
	for i, a := range c.asserts {
		if at != nil && !c.relevantAny(c.assertBlk[i], at) {
			continue
		}
		if name, named := c.assertAct[i]; named && o.Uses != nil {
			on := false
			for _, u := range o.Uses {
				if u == name {
					on = true
				}
			}
			if !on {
				continue // not used by this obligation: left out entirely
			}
		}
		sb.WriteString("(assert " + a + ")\n")
	}
	for _, a := range extra {
		sb.WriteString("(assert " + a + ")\n")
	}
	for _, a := range o.Extra {
		sb.WriteString("(assert " + a + ")\n")
	}
	sb.WriteString("; obligation " + o.Name + "\n; clause: " + strings.ReplaceAll(o.Clause, "\n", " ") + "\n")
	sb.WriteString("(assert " + o.Hyp + ")\n")
	if o.Cover {
		sb.WriteString("(assert " + o.Goal + ")\n")
	} else {
		sb.WriteString("(assert (not " + o.Goal + "))\n")
	}
	sb.WriteString("(check-sat)\n(get-model)\n")
	return sb.String()
}

type pendingSites struct {
	o  *Obligation
	c  *FnCtx
	en []Term
}

type siteJob struct {
	parent *Obligation
	idx    int
	j      job
}

type job struct {
	o      *Obligation
	script string
	tmo    int
	all    bool
	probe  bool // single fast configuration only (vacuity probes)
}

func dischargeAll(jobs []job, seed int) {
	var wg sync.WaitGroup
	ch := make(chan job)
	workers := 14
	for i := 0; i < workers; i++ {
		wg.Add(1)
		go func() {
			defer wg.Done()
			for j := range ch {
				if j.script == "" {
					continue // decided earlier
				}
				if j.probe {
					dir := filepath.Join(workDir, "smt")
					os.MkdirAll(dir, 0o755)
					file := filepath.Join(dir, sym(j.o.Name)+".smt2")
					os.WriteFile(file, []byte(j.script), 0o644)
					// the budget of a probe is a deterministic resource count (z3 rlimit), not
					// seconds: which candidates survive must not depend on machine load
					r := runOne(probeSolver, file, 30, context.Background())
					j.o.Verdict, j.o.Results, j.o.File = r.Verdict, []SolverResult{r}, file
					continue
				}
				v, rs, f := solveRace(j.script, j.o.Name, j.tmo, j.all, seed)
				j.o.Verdict, j.o.Results, j.o.File = v, rs, f
				if os.Getenv("GOVC_STATS") != "" {
					for _, r := range rs {
						fmt.Fprintf(os.Stderr, "STAT %s %s %.2f %s\n", r.Solver, r.Verdict, r.Secs, j.o.Name)
					}
				}
			}
		}()
	}
	for _, j := range jobs {
		ch <- j
	}
	close(ch)
	wg.Wait()
}

// houdini prunes automatic invariant candidates until the remaining set is inductive.
func (c *FnCtx) runHoudini(tmo int, seed int) []Term {
	if len(c.houdini) == 0 {
		return nil
	}
	// functions with per-iteration clauses (large traversal loops) get many candidates, a
	// good part of them false by design: decide them with the fast configuration only
	fast := false
	for _, f := range c.flags {
		if f.iter != nil {
			fast = true
		}
	}
	for round := 0; round < 12; round++ {
		var en []Term
		for _, cd := range c.houdini {
			if cd.alive {
				en = append(en, cd.en)
			}
		}
		var jobs []job
		var owner []*candidate
		var allGoals []Term
		for _, cd := range c.houdini {
			if !cd.alive {
				continue
			}
			if cd.entry == "" {
				cd.alive = false
				continue
			}
			g := and(append(append([]Term{}, cd.back...), cd.entry)...)
			allGoals = append(allGoals, g)
			o := &Obligation{Name: fmt.Sprintf("houdini.%s.%s.L%d.%s.r%d", sym(c.fn.Name()), c.uid, cd.loop.ordinal, sym(cd.desc), round), Hyp: "true", Goal: g}
			scr := ""
			if fast && len(cd.sites) > 0 {
				scr = c.scriptAtAny(o, en, cd.sites) // only what can reach the loop's entry / back edges
			} else {
				scr = c.script(o, en)
			}
			jobs = append(jobs, job{o: o, script: scr, tmo: tmo, probe: fast})
			owner = append(owner, cd)
		}
		if len(jobs) == 0 {
			break
		}
		// fast path: all remaining candidates inductive together
		ob := &Obligation{Name: fmt.Sprintf("houdini.%s.%s.all.r%d", sym(c.fn.Name()), c.uid, round), Hyp: "true", Goal: and(allGoals...)}
		batch := []job{{o: ob, script: c.script(ob, en), tmo: tmo, probe: fast}}
		dischargeAll(batch, seed)
		if ob.Verdict == "unsat" {
			break
		}
		dischargeAll(jobs, seed)
		died := false
		for i, j := range jobs {
			if j.o.Verdict != "unsat" && owner[i].alive {
				owner[i].alive = false
				died = true
				if os.Getenv("GOVC_HOUDINI_DEBUG") != "" {
					fmt.Fprintf(os.Stderr, "houdini: %s L%d %s dropped in round %d (%s) %s\n", c.fn.Name(), owner[i].loop.ordinal, owner[i].desc, round, j.o.Verdict, j.o.File)
				}
			}
		}
		if !died {
			break
		}
	}
	var out []Term
	for _, cd := range c.houdini {
		if cd.alive {
			out = append(out, cd.en)
		} else {
			out = append(out, not(cd.en))
		}
	}
	return out
}

func runProperty(prop string, tier string, seed int, only string) (*runResult, error) {
	for _, kf := range loadKnown().Findings {
		shortPortfolio[kf.Obligation] = true
	}
	dirs, err := contractPackages(prop)
	if err != nil {
		return nil, err
	}
	if len(dirs) == 0 {
		return nil, fmt.Errorf("no contract file in %s mentions property %s", repoDir, prop)
	}
	L, err := loadRepo(dirs...)
	if err != nil {
		return nil, err
	}
	U := newUniverse(L)
	specs := newSpecSet()
	var pkgPaths []string
	for _, p := range L.pkgs {
		pkgPaths = append(pkgPaths, p.PkgPath)
	}
	// contracts of every loaded /repo package (callee contracts live in their own package)
	var all []string
	for path := range L.all {
		if strings.HasPrefix(path, repoMod) {
			all = append(all, path)
		}
	}
	sort.Strings(all)
	for _, path := range all {
		specs.parseContracts(path, L.contractLines(path))
	}
	depLines := readDepsSpec()
	specs.parseContracts("deps", depLines)
	res := &runResult{trusted: map[string]bool{}, ctxs: map[*Obligation]*FnCtx{}}
	vacuous := map[*FnCtx]bool{}
	res.errs = append(res.errs, specs.errs...)
	res.obls = append(res.obls, checkImmutables(L, specs, prop)...)
	tmo := 10
	if tier == "thorough" {
		tmo = 60
	}
	for _, sp := range specs.order {
		if !hasProp(sp.props, prop) || sp.pkg == "deps" {
			continue
		}
		if only != "" && !strings.Contains(sp.name, only) {
			continue
		}
		start := time.Now()
		fr := &FuncReport{Func: sp.name, Package: sp.pkg}
		res.funcs = append(res.funcs, fr)
		fn := L.findFunc(sp.pkg, sp.name)
		if (fn == nil || len(fn.Blocks) == 0) && L.isIfaceMethod(sp.pkg, sp.name) {
			// contract on an abstract interface method: assumed of every implementation, applied at invoke sites
			fr.Bound = true
			fr.Unsupported = append(fr.Unsupported, "contract on an interface method: assumed of all implementations (trusted), not verified")
			res.trusted["assumed interface-method contract: "+sp.pkg+"."+sp.name] = true
			continue
		}
		if fn == nil || len(fn.Blocks) == 0 {
			fr.Unsupported = append(fr.Unsupported, "function not found in /repo (renamed or removed): contract does not bind")
			continue
		}
		fr.Bound = true
		if sp.assumeOnly {
			fr.Unsupported = append(fr.Unsupported, "contract is assumed (trusted), not verified")
			res.trusted["assumed contract: "+sp.pkg+"."+sp.name] = true
			continue
		}
		// verification instances: one per (kind, slot) of every `slots ... assume` clause
		var insts []*clause
		hasInst := false
		for _, sc := range sp.slots {
			if !sc.instance {
				continue
			}
			hasInst = true
			tmp := newFnCtx(L, U, fn, sp, specs)
			cls, err := tmp.expandSlots(sc)
			if err != nil {
				fr.Unsupported = append(fr.Unsupported, fmt.Sprintf("contract %s:%d: %v", sc.line.file, sc.line.line, err))
				continue
			}
			insts = append(insts, cls...)
		}
		if !hasInst {
			insts = []*clause{nil}
		}
		ftmo := tmo
		if sp.timeout > 0 && tier != "thorough" {
			ftmo = sp.timeout
		}
		var jobs []job
		var siteJobs []siteJob
		var aggJobs []job
		var pending []pendingSites
		var probes []*Obligation
		var hypProbes []*Obligation
		for ii, inst := range insts {
			c := newFnCtx(L, U, fn, sp, specs)
			c.inst = inst
			c.uid = fmt.Sprintf("f%d.i%d", len(res.funcs), ii)
			func() {
				defer func() {
					if r := recover(); r != nil {
						if ee, ok := r.(evalErr); ok {
							c.unsupported("%s", string(ee))
							return
						}
						panic(r)
					}
				}()
				c.run()
				c.addAxioms(specs)
				c.finalize()
			}()
			for _, u := range c.unsup {
				dup := false
				for _, x := range fr.Unsupported {
					if x == u {
						dup = true
					}
				}
				if !dup {
					fr.Unsupported = append(fr.Unsupported, u)
				}
			}
			en := c.runHoudini(min(ftmo, 3), seed)
			// vacuity probe: the assumptions of the function (contract preconditions, callee
			// postconditions, lemmas, axioms, all invariants switched on) must not be contradictory
			{
				probe := &Obligation{Name: fmt.Sprintf("%s.consistent", sp.oname()), Kind: "cover", Func: fn.RelString(nil), Clause: "assumptions are satisfiable (vacuity probe: must NOT be unsat)", Hyp: "true", Goal: "true", Cover: true, Props: sp.props}
				if inst != nil {
					probe.Name += "." + inst.label
				}
				probe.Script = c.script(probe, en)
				probes = append(probes, probe)
				res.ctxs[probe] = c
			}
			// vacuity guard for per-iteration clauses: the hypothesis of `A ==> B` must be
			// satisfiable at some back edge (unsat = the clause says nothing)
			{
				var names []string
				for n := range c.hypSites {
					names = append(names, n)
				}
				sort.Strings(names)
				for _, n := range names {
					hp := &Obligation{Name: n + ".hyp_reachable", Kind: "cover", Func: fn.RelString(nil), Clause: "the hypothesis of the clause can hold at the end of some iteration (vacuity guard: must NOT be unsat)", Hyp: "true", Goal: or(c.hypSites[n]...), Cover: true, Props: sp.props}
					hp.Script = c.script(hp, en)
					hypProbes = append(hypProbes, hp)
					res.ctxs[hp] = c
				}
			}
			fr.Candidates += len(c.houdini)
			for _, cd := range c.houdini {
				if cd.alive {
					fr.Alive++
				}
			}
			for k := range c.trusted {
				res.trusted[k] = true
			}
			bindErr := ""
			for _, u := range c.unsup {
				if strings.HasPrefix(u, "contract ") && bindErr == "" {
					bindErr = u
				}
			}
			for _, o := range c.obls {
				o.BindErr = bindErr
				if inst != nil {
					// Cnn.func.<label>[@where] -> Cnn.func.<label>.<Kind.slot>[@where]
					bn, at := o.Name, ""
					if i := strings.Index(bn, "@"); i >= 0 {
						bn, at = o.Name[:i], o.Name[i:]
					}
					o.Name = bn + "." + inst.label + at
					o.Witness = inst.witness
				}
				o.Script = c.script(o, en)
				res.ctxs[o] = c
				res.obls = append(res.obls, o)
				if len(o.Sites) <= 1 && (len(o.Sites) == 0 || o.Sites[0].Block == nil) {
					jobs = append(jobs, job{o: o, script: o.Script, tmo: ftmo, all: tier == "thorough"})
					continue
				}
				// first attempt: the aggregated query (all sites at once) with a short timeout
				if !sp.persite {
					aggJobs = append(aggJobs, job{o: o, script: o.Script, tmo: min(ftmo, 3)})
				}
				pending = append(pending, pendingSites{o: o, c: c, en: en})
			}
			_ = siteJobs
		}
		if len(hypProbes) > 0 {
			var pj []job
			for _, hp := range hypProbes {
				pj = append(pj, job{o: hp, script: hp.Script, tmo: 3, probe: true})
			}
			dischargeAll(pj, seed)
			for _, hp := range hypProbes {
				if hp.Verdict != "unsat" {
					continue
				}
				cl := strings.TrimSuffix(hp.Name, ".hyp_reachable")
				msg := fmt.Sprintf("contract : the hypothesis of %s can never hold (vacuous clause); it is not counted as proved", cl)
				res.errs = append(res.errs, "VACUOUS-CLAUSE: "+msg)
				for _, o := range res.obls {
					if baseName(o.Name) == cl && res.ctxs[o] == res.ctxs[hp] {
						o.Vacuous = true
					}
				}
			}
		}
		{
			var pj []job
			for _, pr := range probes {
				pj = append(pj, job{o: pr, script: pr.Script, tmo: 3, probe: true})
			}
			dischargeAll(pj, seed)
			for _, pr := range probes {
				if pr.Verdict == "unsat" {
					// contradictory assumptions: nothing proved from them counts
					res.errs = append(res.errs, fmt.Sprintf("VACUOUS: assumptions of %s are contradictory (%s)", pr.Func, pr.Name))
					vacuous[res.ctxs[pr]] = true
					res.obls = append(res.obls, pr)
				} else {
					pr.Verdict = "sat" // not refuted within the probe budget
				}
			}
		}
		dischargeAll(aggJobs, seed)
		for _, pd := range pending {
			o, c, en := pd.o, pd.c, pd.en
			if ok(o) {
				jobs = append(jobs, job{o: o}) // already decided
				continue
			}
			{
				// one query per site, each with only the assumptions that can reach the site
				for si := range o.Sites {
					site := &o.Sites[si]
					so := &Obligation{Name: fmt.Sprintf("%s.site%d", o.Name, si), Hyp: site.Hyp, Goal: site.Goal, Cover: o.Cover, Where: site.Where, Uses: site.Uses, Clause: o.Clause + "  [site " + site.Where + "]"}
					scr := c.scriptAt(so, en, site.Block)
					siteJobs = append(siteJobs, siteJob{parent: o, idx: si, j: job{o: so, script: scr, tmo: ftmo, all: tier == "thorough"}})
				}
			}
		}
		fr.GenSecs = time.Since(start).Seconds()
		for _, sj := range siteJobs {
			jobs = append(jobs, sj.j)
		}
		dischargeAll(jobs, seed)
		// fold site verdicts into their obligation
		folded := map[*Obligation]bool{}
		for _, sj := range siteJobs {
			p := sj.parent
			p.Sites[sj.idx].Verdict = sj.j.o.Verdict
			p.Sites[sj.idx].Results = sj.j.o.Results
			p.Sites[sj.idx].File = sj.j.o.File
			folded[p] = true
		}
		for p := range folded {
			allOk, anyRef := true, false
			p.Results = nil
			for _, st := range p.Sites {
				good := (p.Cover && st.Verdict == "sat") || (!p.Cover && st.Verdict == "unsat")
				bad := (p.Cover && st.Verdict == "unsat") || (!p.Cover && st.Verdict == "sat")
				if p.Cover {
					// a cover holds if SOME site is reachable with the goal
					if good {
						anyRef = true
					}
				} else {
					if !good {
						allOk = false
					}
					if bad {
						anyRef = true
					}
				}
				p.Results = append(p.Results, st.Results...)
				if p.File == "" || !good {
					p.File = st.File
				}
			}
			switch {
			case p.Cover && anyRef:
				p.Verdict = "sat"
			case p.Cover:
				p.Verdict = "unknown"
			case allOk:
				p.Verdict = "unsat"
			case anyRef:
				p.Verdict = "sat"
			default:
				p.Verdict = "unknown"
			}
		}
		var onlyObl []job
		for _, j := range jobs {
			isSite := false
			for _, sj := range siteJobs {
				if sj.j.o == j.o {
					isSite = true
				}
			}
			if !isSite {
				onlyObl = append(onlyObl, j)
			}
		}
		for p := range folded {
			onlyObl = append(onlyObl, job{o: p})
		}
		jobs = onlyObl
		if os.Getenv("GOVC_SPLIT") != "" {
			for _, sj := range siteJobs {
				fmt.Printf("  site %-8s %s  [%s]\n", sj.j.o.Verdict, sj.j.o.Name, sj.j.o.Where)
			}
		}
		for _, j := range jobs {
			if vacuous[res.ctxs[j.o]] && j.o.Kind != "cover" {
				j.o.Verdict = "unknown"
				j.o.Results = append(j.o.Results, SolverResult{Solver: "vacuity-probe", Verdict: "unknown", Raw: "assumptions contradictory; proof discarded"})
			}
			fr.Obligations++
			if ok(j.o) {
				fr.Discharged++
			}
		}
	}
	// form D: table conformance (C09)
	if prop == "C09" && only == "" {
		to, tp, info := runTableConformance(L, prop, tmo, seed)
		res.obls = append(res.obls, to...)
		res.errs = append(res.errs, tp...)
		res.extra = info
	}
	// lemmas
	lo, lt, lerrs := runLemmas(L, U, specs, prop, tmo, seed, tier == "thorough")
	res.obls = append(res.obls, lo...)
	for k := range lt {
		res.trusted[k] = true
	}
	res.errs = append(res.errs, lerrs...)
	res.tags = len(U.tagTypes)
	return res, nil
}

func readDepsSpec() []specLine {
	p := filepath.Join(verifDir, "contracts", "deps.spec")
	b, err := os.ReadFile(p)
	if err != nil {
		return nil
	}
	var out []specLine
	for i, l := range strings.Split(string(b), "\n") {
		t := strings.TrimSpace(l)
		if strings.HasPrefix(t, "#") || t == "" {
			continue
		}
		out = append(out, specLine{text: l, file: p, line: i + 1})
	}
	return out
}

// addAxioms adds the assumed facts about dependencies (deps.spec) whose
// function symbols the function's VCs actually use.
func (c *FnCtx) addAxioms(specs *SpecSet) {
	all := append([]*lemmaSpec{}, specs.axioms...)
	// lemmas of the function's own package (proved separately as obligations of their property)
	nAx := len(all)
	if c.fn != nil && c.fn.Pkg != nil && c.spec != nil {
		for _, lm := range specs.lemmas {
			if lm.pkg == c.fn.Pkg.Pkg.Path() {
				all = append(all, lm)
			}
		}
	}
	for ai, ax := range all {
		isLemma := ai >= nAx
		before := map[string]bool{}
		for k := range c.funUsed {
			before[k] = true
		}
		nd := len(c.decls)
		na := len(c.asserts)
		env := &evalEnv{vars: map[string]*Val{}, st: c.entry, old: c.entry, pkg: c.fn.Pkg.Pkg}
		saveNames := c.names
		c.names = map[string][]ssa.Value{}
		t, err := c.evalBool(ax.expr, env)
		c.names = saveNames
		if err != nil {
			// axiom mentions something this package cannot resolve: not applicable here
			if os.Getenv("GOVC_DEBUG") != "" {
				fmt.Fprintf(os.Stderr, "axiom %s skipped in %s: %v\n", ax.name, c.fn.Name(), err)
			}
			c.rollback(nd, na, before)
			continue
		}
		used := false
		mentions := 0
		for k := range c.funUsed {
			if strings.Contains(t, k) {
				mentions++
				if before[k] {
					used = true
				}
			}
		}
		if !used && mentions > 0 {
			c.rollback(nd, na, before)
			continue
		}
		if isLemma {
			// lemmas are activated per obligation (label{...,lemma_name})
			c.assumeNamed(ax.name, t)
			c.lemmasUsed = append(c.lemmasUsed, ax.name)
		} else {
			c.assume(t)
			c.trusted["assumed (deps.spec) "+ax.name+": "+ax.src] = true
		}
	}
}

func (c *FnCtx) rollback(nd, na int, before map[string]bool) {
	for _, d := range c.decls[nd:] {
		// un-declare
		f := strings.Fields(d)
		if len(f) > 1 {
			delete(c.declared, f[1])
			for k, n := range c.strConst {
				if n == f[1] {
					delete(c.strConst, k)
				}
			}
		}
	}
	c.decls = c.decls[:nd]
	c.asserts = c.asserts[:na]
	for k := range c.funUsed {
		if !before[k] {
			delete(c.funUsed, k)
		}
	}
}

// ---------------------------------------------------------------- evidence

type Evidence struct {
	PropertyID  string         `json:"property_id"`
	Tier        string         `json:"tier"`
	Seed        int            `json:"seed"`
	Level       string         `json:"level"`
	Coverage    map[string]any `json:"coverage"`
	Assumptions []string       `json:"assumptions"`
	WallS       float64        `json:"wall_s"`
	Violations  int            `json:"violations"`
}

func writeJSON(path string, v any) error {
	os.MkdirAll(filepath.Dir(path), 0o755)
	b, err := json.MarshalIndent(v, "", " ")
	if err != nil {
		return err
	}
	return os.WriteFile(path, append(b, '\n'), 0o644)
}

// checkImmutables decides `immutable T.f` declarations: every Store whose address
// is &x.f (x of type *T) anywhere in the loaded /repo packages must have x
// allocated in the same function (construction). Such a field heap is then
// frame-stable: no call can change it on an object that already existed.
// rootIsAlloc: the address denotes (a field of a field of ...) an object allocated by
// this very function (composite literals initialise their fields this way).
func rootIsAlloc(v ssa.Value) bool {
	for {
		switch x := v.(type) {
		case *ssa.Alloc:
			return true
		case *ssa.FieldAddr:
			v = x.X
		default:
			return false
		}
	}
}

// checkEmbeddedImmutable: `immutable Owner.via.leaf` -- the field leaf of the struct
// stored inline in field via of Owner is never assigned on a pre-existing Owner.
// Allowed stores: into a struct of that type held by a different container or by a
// local; into an Owner allocated by the storing function. Stores through a pointer
// of unknown provenance are conservatively rejected.
func checkEmbeddedImmutable(L *Loaded, d immDecl, ownerT types.Type, prop string) []*Obligation {
	os_, ok := ownerT.Underlying().(*types.Struct)
	var innerT types.Type
	if ok {
		for i := 0; i < os_.NumFields(); i++ {
			if os_.Field(i).Name() == d.via {
				innerT = os_.Field(i).Type()
			}
		}
	}
	name := fmt.Sprintf("%s.immutable.%s.%s.%s", firstProp(d.props, prop), d.typ, d.via, d.field)
	if innerT == nil {
		return []*Obligation{{Name: name, Kind: "immutable", Func: d.pkg, Clause: "unknown embedded field", Verdict: "sat", Props: d.props, Hyp: "true", Goal: "true"}}
	}
	if _, isS := innerT.Underlying().(*types.Struct); !isS {
		return []*Obligation{{Name: name, Kind: "immutable", Func: d.pkg, Clause: "embedded field is not a struct", Verdict: "sat", Props: d.props, Hyp: "true", Goal: "true"}}
	}
	var bad []string
	n := 0
	// provenance of an address of type *inner: "owner" (inside a pre-existing Owner), "ok", "unknown"
	prov := func(v ssa.Value) string {
		switch x := v.(type) {
		case *ssa.Alloc:
			return "ok"
		case *ssa.FieldAddr:
			s2, ST, ok := isStructPtr(x.X.Type())
			if !ok {
				return "unknown"
			}
			if structKey(ST) == structKey(ownerT) && s2.Field(x.Field).Name() == d.via {
				if rootIsAlloc(x.X) {
					return "ok"
				}
				return "owner"
			}
			return "ok" // the struct lives in a different container
		case *ssa.IndexAddr:
			return "ok" // element of a slice/array of such structs: not inside an Owner
		}
		return "unknown"
	}
	for path, sp := range L.spkgs {
		if !strings.HasPrefix(path, repoMod) {
			continue
		}
		for _, fn := range allFuncsOf(sp) {
			for _, b := range fn.Blocks {
				for _, ins := range b.Instrs {
					st, ok := ins.(*ssa.Store)
					if !ok {
						continue
					}
					pos := L.prog.Fset.Position(st.Pos())
					at := fmt.Sprintf("%s (%s:%d)", fn.RelString(nil), strings.TrimPrefix(pos.Filename, repoDir+"/"), pos.Line)
					// whole Owner overwritten
					if _, WT, isSP := isStructPtr(st.Addr.Type()); isSP && structKey(WT) == structKey(ownerT) {
						n++
						if !rootIsAlloc(st.Addr) {
							bad = append(bad, at+" whole-owner store")
						}
						continue
					}
					// whole inner struct overwritten
					if _, WT, isSP := isStructPtr(st.Addr.Type()); isSP && structKey(WT) == structKey(innerT) {
						n++
						if p := prov(st.Addr); p != "ok" {
							bad = append(bad, at+" whole-struct store ("+p+")")
						}
						continue
					}
					fa, ok := st.Addr.(*ssa.FieldAddr)
					if !ok {
						continue
					}
					s2, ST, ok := isStructPtr(fa.X.Type())
					if !ok || structKey(ST) != structKey(innerT) || s2.Field(fa.Field).Name() != d.field {
						continue
					}
					n++
					if p := prov(fa.X); p != "ok" {
						bad = append(bad, at+" ("+p+")")
					}
				}
			}
		}
	}
	heap := fieldHeap(innerT, d.field)
	o := &Obligation{Name: name, Kind: "immutable", Func: d.pkg,
		Clause: fmt.Sprintf("field %s of the %s embedded in %s.%s is never assigned on a pre-existing %s (%d stores checked)", d.field, typeKey(innerT), d.typ, d.via, d.typ, n), Props: d.props, Hyp: "true", Goal: "true"}
	if len(bad) == 0 {
		o.Verdict = "unsat"
		sub := "sub." + sym(structKey(ownerT)) + "." + sym(d.via)
		dup := false
		for _, x := range partialStable[heap] {
			if x == sub {
				dup = true
			}
		}
		if !dup {
			partialStable[heap] = append(partialStable[heap], sub)
		}
		o.Results = []SolverResult{{Solver: "syntactic-frame-scan", Verdict: "unsat"}}
	} else {
		o.Verdict = "sat"
		o.Where = strings.Join(bad, "; ")
		o.Results = []SolverResult{{Solver: "syntactic-frame-scan", Verdict: "sat", Raw: "stores that may hit a pre-existing object: " + o.Where}}
	}
	if hasProp(d.props, prop) {
		return []*Obligation{o}
	}
	return nil
}

func checkImmutables(L *Loaded, specs *SpecSet, prop string) []*Obligation {
	var out []*Obligation
	for _, d := range specs.immutables {
		tp := L.tpkgs[d.pkg]
		if tp == nil {
			continue
		}
		obj := tp.Scope().Lookup(d.typ)
		if obj == nil {
			specs.errs = append(specs.errs, fmt.Sprintf("immutable %s.%s: unknown type", d.typ, d.field))
			continue
		}
		T := obj.Type()
		if d.via != "" {
			out = append(out, checkEmbeddedImmutable(L, d, T, prop)...)
			continue
		}
		var bad []string
		nStores := 0
		for path, sp := range L.spkgs {
			if !strings.HasPrefix(path, repoMod) {
				continue
			}
			for _, fn := range allFuncsOf(sp) {
				for _, b := range fn.Blocks {
					for _, ins := range b.Instrs {
						st, ok := ins.(*ssa.Store)
						if !ok {
							continue
						}
						// whole-struct store *p = v with p : *T overwrites every field
						if _, WT, isSP := isStructPtr(st.Addr.Type()); isSP && structKey(WT) == structKey(T) {
							nStores++
							if !rootIsAlloc(st.Addr) {
								pos := L.prog.Fset.Position(st.Pos())
								bad = append(bad, fmt.Sprintf("%s whole-struct store (%s:%d)", fn.RelString(nil), strings.TrimPrefix(pos.Filename, repoDir+"/"), pos.Line))
							}
							continue
						}
						fa, ok := st.Addr.(*ssa.FieldAddr)
						if !ok {
							continue
						}
						s, ST, ok := isStructPtr(fa.X.Type())
						if !ok || structKey(ST) != structKey(T) || s.Field(fa.Field).Name() != d.field {
							continue
						}
						nStores++
						if !rootIsAlloc(fa.X) {
							pos := L.prog.Fset.Position(st.Pos())
							bad = append(bad, fmt.Sprintf("%s (%s:%d)", fn.RelString(nil), strings.TrimPrefix(pos.Filename, repoDir+"/"), pos.Line))
						}
					}
				}
			}
		}
		heap := fieldHeap(T, d.field)
		o := &Obligation{Name: fmt.Sprintf("%s.immutable.%s.%s", firstProp(d.props, prop), d.typ, d.field), Kind: "immutable", Func: d.pkg,
			Clause: fmt.Sprintf("field %s.%s is only assigned on objects allocated in the assigning function (%d stores checked)", d.typ, d.field, nStores), Props: d.props, Hyp: "true", Goal: "true"}
		if len(bad) == 0 {
			o.Verdict = "unsat"
			declaredStable[heap] = true
			o.Results = []SolverResult{{Solver: "syntactic-frame-scan", Verdict: "unsat"}}
		} else {
			o.Verdict = "sat"
			o.Where = strings.Join(bad, "; ")
			o.Results = []SolverResult{{Solver: "syntactic-frame-scan", Verdict: "sat", Raw: "stores to pre-existing objects: " + o.Where}}
		}
		if hasProp(d.props, prop) {
			out = append(out, o)
		}
	}
	return out
}

func firstProp(props []string, dflt string) string {
	for _, p := range props {
		if p == dflt {
			return p
		}
	}
	if len(props) > 0 {
		return props[0]
	}
	return dflt
}

func allFuncsOf(sp *ssa.Package) []*ssa.Function {
	var out []*ssa.Function
	var add func(f *ssa.Function)
	add = func(f *ssa.Function) {
		if f == nil {
			return
		}
		out = append(out, f)
		for _, a := range f.AnonFuncs {
			add(a)
		}
	}
	for _, m := range sp.Members {
		switch x := m.(type) {
		case *ssa.Function:
			add(x)
		case *ssa.Type:
			for _, T := range []types.Type{x.Type(), types.NewPointer(x.Type())} {
				ms := sp.Prog.MethodSets.MethodSet(T)
				for i := 0; i < ms.Len(); i++ {
					f := sp.Prog.MethodValue(ms.At(i))
					if f != nil && f.Pkg == sp && f.Synthetic == "" {
						dup := false
						for _, o := range out {
							if o == f {
								dup = true
							}
						}
						if !dup {
							add(f)
						}
					}
				}
			}
		}
	}
	return out
}
