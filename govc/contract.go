package main

// Glue between contracts and the executor: requires/ensures, loop invariants,
// event flags (called(...)), skolemisation, slot expansion.

import (
	"fmt"
	"go/types"
	"sort"
	"strings"

	"golang.org/x/tools/go/ssa"
)

type boundClause struct {
	cl      *clause
	name    string
	body    specExpr
	skolems map[string]*Val
	flagOf  map[*eCall]int
}

type fnSpecState struct {
	env     *evalEnv
	ens     []*boundClause
	reqs    []Term
	headSt  map[*loopInfo]*State
	invs    map[*loopInfo][]*boundClause
	bodies  map[*loopInfo][]*boundClause
	entries map[*loopInfo][]*boundClause
	flagMap map[*eCall]int
}

var specState = map[*FnCtx]*fnSpecState{}

func (c *FnCtx) ss() *fnSpecState {
	s := specState[c]
	if s == nil {
		s = &fnSpecState{headSt: map[*loopInfo]*State{}, invs: map[*loopInfo][]*boundClause{}, flagMap: map[*eCall]int{}}
		specState[c] = s
	}
	return s
}

func (c *FnCtx) baseEnv(st *State) *evalEnv {
	env := &evalEnv{vars: map[string]*Val{}, st: st, old: c.entry, pkg: c.fn.Pkg.Pkg}
	for _, p := range c.fn.Params {
		env.vars[p.Name()] = c.regs[p]
	}
	for _, p := range c.fn.FreeVars {
		env.vars[p.Name()] = c.regs[p]
	}
	res := c.fn.Signature.Results()
	for i := 0; i < res.Len(); i++ {
		env.resNm = append(env.resNm, res.At(i).Name())
	}
	return env
}

func walkSpec(e specExpr, f func(specExpr)) {
	if e == nil {
		return
	}
	f(e)
	switch x := e.(type) {
	case *eSel:
		walkSpec(x.x, f)
	case *eIndex:
		walkSpec(x.x, f)
		walkSpec(x.i, f)
	case *eCall:
		walkSpec(x.fun, f)
		for _, a := range x.args {
			walkSpec(a, f)
		}
	case *eUnary:
		walkSpec(x.x, f)
	case *eBinary:
		walkSpec(x.x, f)
		walkSpec(x.y, f)
	case *eQuant:
		walkSpec(x.body, f)
	case *eTypeAssert:
		walkSpec(x.x, f)
	case *eSlice:
		walkSpec(x.x, f)
		walkSpec(x.lo, f)
		walkSpec(x.hi, f)
	}
}

func (c *FnCtx) specErr(cl *clause, err error) {
	c.unsupported("contract %s:%d: %v", strings.TrimPrefix(cl.line.file, repoDir+"/"), cl.line.line, err)
}

// bindClause skolemises leading universal quantifiers and registers event flags.
func (c *FnCtx) bindClause(cl *clause, env *evalEnv, prefix string) *boundClause {
	bc := &boundClause{cl: cl, skolems: map[string]*Val{}, flagOf: map[*eCall]int{}}
	body := cl.expr
	for {
		q, ok := body.(*eQuant)
		if !ok || !q.forall {
			break
		}
		for _, qv := range q.vars {
			var T types.Type
			func() {
				defer func() {
					if r := recover(); r != nil {
						c.specErr(cl, fmt.Errorf("%v", r))
					}
				}()
				T = c.resolveType(qv.typ, env.pkg)
			}()
			if T == nil {
				return nil
			}
			v := c.freshOf(env.st, T, "sk."+qv.name)
			bc.skolems[qv.name] = v
		}
		body = q.body
	}
	bc.body = body
	// flags
	n := *env
	n.bound = bc.skolems
	var ferr error
	walkSpec(body, func(e specExpr) {
		call, ok := e.(*eCall)
		if !ok {
			return
		}
		id, ok := call.fun.(*eIdent)
		if !ok || (id.name != "called" && id.name != "retof") || len(call.args) == 0 {
			return
		}
		fl := &Flag{id: len(c.flags)}
		fl.callee = exprText(call.args[0])
		fl.iter = c.bindIter
		if id.name == "retof" {
			fl.ret = true
			f := c.L.findFunc(c.fn.Pkg.Pkg.Path(), fl.callee)
			if f == nil {
				// pkgname.Func of another /repo package
				if i := strings.Index(fl.callee, "."); i > 0 {
					for path, sp := range c.L.spkgs {
						if strings.HasPrefix(path, repoMod) && sp.Pkg.Name() == fl.callee[:i] {
							if g := c.L.findFunc(path, fl.callee[i+1:]); g != nil {
								f = g
							}
						}
					}
				}
			}
			if f == nil || f.Signature.Results().Len() != 1 {
				ferr = fmt.Errorf("retof(%s): need a function of this package with exactly one result", fl.callee)
				return
			}
			fl.retT = f.Signature.Results().At(0).Type()
			fl.sort = c.sortOf(fl.retT)
		}
		for _, a := range call.args[1:] {
			if _, w := a.(*eWild); w {
				fl.args = append(fl.args, nil)
				fl.argT = append(fl.argT, "")
				fl.argV = append(fl.argV, nil)
				continue
			}
			if fl.iter != nil || isWherePattern(a) {
				// iteration-local event (or where(x, cond) pattern): the pattern is evaluated when a matching call executes
				fl.args = append(fl.args, a)
				if fl.iter != nil {
					fl.argT = append(fl.argT, fmt.Sprintf("lazy:%p:%s", a, exprTextFull(a))) // never shared between clauses
				} else {
					// function-level where(...) pattern: clauses with the same text share the flag,
					// so an invariant can carry the event of an ensures
					fl.argT = append(fl.argT, "lazy:"+exprTextFull(a))
				}
				fl.argV = append(fl.argV, nil)
				continue
			}
			v, err := c.evalSpec(a, &n)
			if err != nil {
				ferr = err
				return
			}
			fl.args = append(fl.args, a)
			fl.argT = append(fl.argT, v.S)
			fl.argV = append(fl.argV, v)
		}
		fl.desc = fmt.Sprintf("%s(%d args)", fl.callee, len(fl.args))
		// identical event patterns share one flag (so invariants can talk about the ensures' events)
		key := fmt.Sprint(fl.ret) + fl.callee + "(" + strings.Join(fl.argT, " , ") + ")"
		shared := false
		for _, o := range c.flags {
			if o.iter == fl.iter && fmt.Sprint(o.ret)+o.callee+"("+strings.Join(o.argT, " , ")+")" == key {
				fl = o
				shared = true
				break
			}
		}
		if !shared {
			c.flags = append(c.flags, fl)
		}
		bc.flagOf[call] = fl.id
		c.ss().flagMap[call] = fl.id
	})
	if ferr != nil {
		c.specErr(cl, ferr)
		return nil
	}
	return bc
}

func isWherePattern(a specExpr) bool {
	if w, ok := a.(*eCall); ok {
		if id, ok := w.fun.(*eIdent); ok && id.name == "where" && len(w.args) == 2 {
			return true
		}
	}
	return false
}

func exprText(e specExpr) string {
	switch x := e.(type) {
	case *eIdent:
		return x.name
	case *eSel:
		return exprText(x.x) + "." + x.name
	}
	return "?"
}

func (c *FnCtx) evCalled(x *eCall, env *evalEnv) *Val {
	id, ok := c.ss().flagMap[x]
	if !ok {
		c.efail("called(...) / retof(...) is only allowed in ensures / invariants (outside nested quantifiers)")
	}
	fl := c.flags[0]
	for _, f := range c.flags {
		if f.id == id {
			fl = f
		}
	}
	t, ok := c.state(env).flags[id]
	if fl.ret {
		if !ok {
			t = c.retInit(fl)
		}
		return c.mk(fl.retT, t)
	}
	if !ok {
		t = "false"
	}
	return c.mk(boolT, t)
}

func (c *FnCtx) setupSpec(st0 *State) {
	delete(specState, c)
	s := c.ss()
	env := c.baseEnv(st0)
	s.env = env
	if c.spec == nil {
		return
	}
	for _, g := range c.spec.ghosts {
		te, err := parseTypeText(g.typ)
		if err != nil {
			c.unsupported("ghost %s: %v", g.name, err)
			continue
		}
		var T types.Type
		func() {
			defer func() {
				if r := recover(); r != nil {
					c.unsupported("ghost %s: %v", g.name, r)
				}
			}()
			T = c.resolveType(te, env.pkg)
		}()
		if T == nil {
			continue
		}
		c.ghosts[g.name] = c.freshOf(st0, T, "ghost."+g.name)
	}
	for _, r := range c.spec.requires {
		t, err := c.evalBool(r.expr, env)
		if err != nil {
			c.specErr(r, err)
			continue
		}
		if r.label != "" {
			// a labelled precondition can be switched off for obligations that do not need it
			c.assumeNamed(r.label, t)
		} else {
			c.assume(t)
		}
		s.reqs = append(s.reqs, t)
	}
	if c.inst != nil {
		if c.inst.variadic && c.ghosts["si"] == nil { // variadic slot: index ghost
			c.ghosts["si"] = c.freshOf(st0, intT, "ghost.si")
		}
		t, err := c.evalBool(c.inst.expr, env)
		if err != nil {
			c.specErr(c.inst, err)
		} else {
			c.assume(t)
			s.reqs = append(s.reqs, t)
		}
	}
	// expansions
	clauses := append([]*clause{}, c.spec.ensures...)
	for _, sc := range c.spec.slots {
		if sc.instance {
			continue
		}
		cls, err := c.expandSlots(sc)
		if err != nil {
			c.unsupported("contract %s:%d: %v", sc.line.file, sc.line.line, err)
			continue
		}
		clauses = append(clauses, cls...)
	}
	for i, cl := range clauses {
		bc := c.bindClause(cl, env, "ens")
		if bc == nil {
			continue
		}
		bc.name = cl.label
		if bc.name == "" {
			bc.name = fmt.Sprintf("ensures%d", i+1)
		}
		s.ens = append(s.ens, bc)
	}
	if c.spec.loopCount > 0 && len(c.loopOrd) != c.spec.loopCount {
		c.unsupported("contract %s:%d: the function has %d loops, its `loop <n>` clauses were written for %d (loops were added or removed: the ordinals may designate other loops)", strings.TrimPrefix(c.spec.loopCountLine.file, repoDir+"/"), c.spec.loopCountLine.line, len(c.loopOrd), c.spec.loopCount)
		// the clauses designated by ordinal would be checked against the wrong loops: drop
		// them (their obligations are then "not generated", never refuted by accident)
		c.spec.loops = map[int]*loopSpec{}
	}
	// loops designated by a variable name: the innermost loop containing every reference to it
	for name, ls := range c.spec.loopsByName {
		li := c.loopOfVar(name)
		if li == nil {
			c.unsupported("contract : no loop binds variable %q (renamed or removed)", name)
			continue
		}
		if ex := c.spec.loops[li.ordinal]; ex != nil && ex != ls {
			ex.exits = append(ex.exits, ls.exits...)
			ex.bodies = append(ex.bodies, ls.bodies...)
			ex.entries = append(ex.entries, ls.entries...)
			ex.invariants = append(ex.invariants, ls.invariants...)
			if ls.decreases != nil {
				ex.decreases = ls.decreases
			}
			delete(c.spec.loopsByName, name)
			continue
		}
		c.spec.loops[li.ordinal] = ls
	}
	// loop invariants may use called() too
	for _, li := range c.loopOrd {
		ls := c.spec.loops[li.ordinal]
		if ls == nil {
			continue
		}
		for i, inv := range ls.invariants {
			bc := c.bindClause(inv, env, "inv")
			if bc == nil {
				continue
			}
			bc.name = inv.label
			if bc.name == "" {
				bc.name = fmt.Sprintf("loop%d.inv%d", li.ordinal, i+1)
			}
			s.invs[li] = append(s.invs[li], bc)
		}
		for i, en := range ls.entries {
			bc := c.bindClause(en, env, "entry")
			if bc == nil {
				continue
			}
			bc.name = en.label
			if bc.name == "" {
				bc.name = fmt.Sprintf("loop%d.entry%d", li.ordinal, i+1)
			}
			if s.entries == nil {
				s.entries = map[*loopInfo][]*boundClause{}
			}
			s.entries[li] = append(s.entries[li], bc)
		}
		for i, bd := range ls.bodies {
			c.bindIter = li
			bc := c.bindClause(bd, env, "body")
			c.bindIter = nil
			if bc == nil {
				continue
			}
			bc.name = bd.label
			if bc.name == "" {
				bc.name = fmt.Sprintf("loop%d.body%d", li.ordinal, i+1)
			}
			if s.bodies == nil {
				s.bodies = map[*loopInfo][]*boundClause{}
			}
			s.bodies[li] = append(s.bodies[li], bc)
		}
	}
}

// loopBodies checks the `loop L body` clauses at a back edge of li: they speak about
// the iteration that just ended (events are reset at the loop head).
func (c *FnCtx) loopBodies(li *loopInfo, st *State, cond Term, from *ssa.BasicBlock) {
	if c.spec == nil || c.dry {
		return
	}
	c.curLoop = li
	c.backFrom = from
	defer func() { c.curLoop = nil; c.backFrom = nil }()
	for _, bc := range c.ss().bodies[li] {
		env := c.clauseEnv(bc, st, nil)
		t, err := c.evalBool(bc.body, env)
		if err != nil {
			c.specErr(bc.cl, err)
			continue
		}
		c.emit(&Obligation{Uses: bc.cl.uses, Name: fmt.Sprintf("%s.%s", c.spec.oname(), bc.name), Kind: "loop-body", Clause: bc.cl.src, Where: fmt.Sprintf("iteration of loop %d ending at b%d", li.ordinal, from.Index), Hyp: cond, Goal: t})
		// vacuity guard: the hypothesis of an implication must be able to hold at some back edge
		if imp, ok := bc.body.(*eBinary); ok && imp.op == "==>" && !c.dry {
			if h, err := c.evalBool(imp.x, env); err == nil {
				if c.hypSites == nil {
					c.hypSites = map[string][]Term{}
				}
				n := fmt.Sprintf("%s.%s", c.spec.oname(), bc.name)
				c.hypSites[n] = append(c.hypSites[n], and(cond, h))
			}
		}
	}
}

func (c *FnCtx) clauseEnv(bc *boundClause, st *State, res []*Val) *evalEnv {
	n := *c.ss().env
	n.st = st
	n.result = res
	n.bound = bc.skolems
	return &n
}

func (c *FnCtx) checkEnsures(st *State, vals []*Val, where string) {
	if c.spec == nil {
		return
	}
	for _, bc := range c.ss().ens {
		env := c.clauseEnv(bc, st, vals)
		t, err := c.evalBool(bc.body, env)
		if err != nil {
			c.specErr(bc.cl, err)
			continue
		}
		o := &Obligation{Uses: bc.cl.uses, Name: fmt.Sprintf("%s.%s@%s", c.spec.oname(), bc.name, where), Kind: "ensures", Clause: bc.cl.src, Where: where, Hyp: st.pc, Goal: t, Witness: bc.cl.witness}
		if bc.cl.cover {
			o.Kind = "cover"
			o.Cover = true
		}
		c.emit(o)
	}
	c.checkFrame(st, where)
}

func (c *FnCtx) loopInvariants(li *loopInfo, st *State, cond Term, mode string) {
	c.curLoop = li
	defer func() { c.curLoop = nil }()
	s := c.ss()
	if mode == "assume" {
		s.headSt[li] = st.clone()
	}
	// user invariants
	for _, bc := range s.invs[li] {
		env := c.clauseEnv(bc, st, nil)
		t, err := c.evalBool(bc.body, env)
		if err != nil {
			c.specErr(bc.cl, err)
			continue
		}
		if mode == "assume" {
			// assumed with its quantifiers intact (skolems are for the proof side only)
			if len(bc.skolems) > 0 {
				if len(bc.flagOf) > 0 {
					c.specErr(bc.cl, fmt.Errorf("called(...) under a quantified invariant is not supported"))
					continue
				}
				env0 := c.clauseEnv(bc, st, nil)
				env0.bound = nil
				t, err = c.evalBool(bc.cl.expr, env0)
				if err != nil {
					c.specErr(bc.cl, err)
					continue
				}
			}
			c.assumeNamed(bc.name, implies(cond, t))
			continue
		}
		kind := "invariant-entry"
		nm := "entry"
		if mode != "entry" {
			kind = "invariant-preserved"
			nm = "preserved"
		}
		c.emit(&Obligation{Uses: bc.cl.uses, Name: fmt.Sprintf("%s.%s.%s", c.spec.oname(), bc.name, nm), Kind: kind, Clause: bc.cl.src, Where: fmt.Sprintf("loop %d %s", li.ordinal, mode), Hyp: cond, Goal: t})
	}
	// `loop L entry` clauses: facts about the state in which the loop is entered
	if mode == "entry" {
		for _, bc := range s.entries[li] {
			env := c.clauseEnv(bc, st, nil)
			t, err := c.evalBool(bc.body, env)
			if err != nil {
				c.specErr(bc.cl, err)
				continue
			}
			c.emit(&Obligation{Uses: bc.cl.uses, Name: fmt.Sprintf("%s.%s", c.spec.oname(), bc.name), Kind: "loop-entry", Clause: bc.cl.src, Where: fmt.Sprintf("entry of loop %d", li.ordinal), Hyp: cond, Goal: t})
		}
	}
	// automatic candidates (Houdini): range-index bounds and event-flag progress
	c.autoCandidates(li, st, cond, mode)
}

type candKey struct {
	li   *loopInfo
	desc string
}

var candIndex = map[*FnCtx]map[candKey]*candidate{}

func (c *FnCtx) cand(li *loopInfo, desc string) *candidate {
	m := candIndex[c]
	if m == nil {
		m = map[candKey]*candidate{}
		candIndex[c] = m
	}
	k := candKey{li, desc}
	if cd, ok := m[k]; ok {
		return cd
	}
	cd := &candidate{loop: li, desc: desc, alive: true}
	cd.en = c.fresh("en", "Bool")
	m[k] = cd
	c.houdini = append(c.houdini, cd)
	return cd
}

func (c *FnCtx) autoCandidates(li *loopInfo, st *State, cond Term, mode string) {
	type cnd struct {
		desc string
		t    Term
	}
	var cs []cnd
	// iteration-local events of an enclosing loop: candidate "this inner loop does not
	// raise the event" (kept only if every back edge proves it)
	for _, f := range c.flags {
		if f.iter == nil || f.iter == li || f.ret || !f.iter.blocks[li.header] || !c.flagTouchedIn(f, li) {
			continue
		}
		ent, ok := c.iterEntFlag[li][f.id]
		if !ok {
			continue
		}
		allWild := true
		for _, a := range f.argT {
			if a != "" {
				allWild = false
			}
		}
		if allWild {
			continue // any matching call in the loop raises it: not worth a candidate
		}
		now := st.flags[f.id]
		if now == "" {
			now = "false"
		}
		cs = append(cs, cnd{fmt.Sprintf("iterflag%d-not-raised", f.id), implies(now, ent)})
	}
	emitCands := func() {
		for _, c2 := range cs {
			cd := c.cand(li, c2.desc)
			switch {
			case mode == "assume":
				c.assume(implies(cd.en, implies(cond, c2.t)))
			case mode == "entry":
				cd.entry = implies(cond, c2.t)
				cd.sites = append(cd.sites, c.curBlock)
			default:
				cd.back = append(cd.back, implies(cond, c2.t))
				cd.sites = append(cd.sites, c.curBlock)
			}
		}
	}
	if li.rangeIx == nil || c.regs[li.rangeIx] == nil {
		emitCands()
		return
	}
	phi := c.regs[li.rangeIx]
	cs = append(cs, cnd{"rangeidx>=-1", app("<=", "(- 1)", phi.S)})
	if li.rangeLn != nil {
		if lv, ok := c.regs[li.rangeLn]; ok {
			cs = append(cs, cnd{"rangeidx<len", or(app("<", phi.S, lv.S), eq(phi.S, "(- 1)"))})
		}
	}
	s := c.ss()
	addFlagCands := func(bcs []*boundClause) {
		for _, bc := range bcs {
			if len(bc.flagOf) == 0 {
				continue
			}
			var sk []string
			for k, v := range bc.skolems {
				if _, ok := isIntT(v.T); ok {
					sk = append(sk, k)
				}
			}
			sort.Strings(sk)
			// candidate: once the loop index has passed the skolem index, the clause body holds
			env := c.clauseEnv(bc, st, nil)
			bt, err := c.evalBool(bc.body, env)
			if err != nil {
				continue
			}
			for _, k := range sk {
				cs = append(cs, cnd{fmt.Sprintf("%s:%s<=idx", bc.name, k), implies(and(app("<=", "0", bc.skolems[k].S), app("<=", bc.skolems[k].S, phi.S)), bt)})
			}
			// nested range loops: the enclosing loop is at the outer skolem, the inner index has passed the inner skolem
			for _, lo := range c.loopOrd {
				if lo == li || !lo.blocks[li.header] || lo.rangeIx == nil || c.regs[lo.rangeIx] == nil {
					continue
				}
				po := c.regs[lo.rangeIx]
				for _, k1 := range sk {
					for _, k2 := range sk {
						if k1 == k2 {
							continue
						}
						g := and(eq(bc.skolems[k1].S, app("+", po.S, "1")), app("<=", "0", bc.skolems[k2].S), app("<=", bc.skolems[k2].S, phi.S))
						cs = append(cs, cnd{fmt.Sprintf("%s:%s@L%d,%s<=idx", bc.name, k1, lo.ordinal, k2), implies(g, bt)})
					}
				}
			}
		}
	}
	addFlagCands(s.ens)
	emitCands()
}

func (c *FnCtx) loopDecreases(li *loopInfo, st *State, cond Term, head, back map[*ssa.Phi]*Val, from *ssa.BasicBlock) {
	if c.spec == nil {
		return
	}
	ls := c.spec.loops[li.ordinal]
	if ls == nil || ls.decreases == nil {
		return
	}
	s := c.ss()
	hs := s.headSt[li]
	if hs == nil {
		return
	}
	c.curLoop = li
	defer func() { c.curLoop = nil }()
	envH := *s.env
	envH.st = hs
	mh, err := c.evalSpec(ls.decreases.expr, &envH)
	if err != nil {
		c.specErr(ls.decreases, err)
		return
	}
	for phi, v := range back {
		c.regs[phi] = v
	}
	envB := *s.env
	envB.st = st
	mb, err := c.evalSpec(ls.decreases.expr, &envB)
	for phi, v := range head {
		c.regs[phi] = v
	}
	if err != nil {
		c.specErr(ls.decreases, err)
		return
	}
	c.emit(&Obligation{Name: fmt.Sprintf("%s.loop%d.decreases", c.spec.oname(), li.ordinal), Kind: "decreases", Clause: ls.decreases.src, Where: fmt.Sprintf("loop %d back edge b%d", li.ordinal, from.Index), Hyp: cond, Goal: and(app("<=", "0", mh.S), app("<", mb.S, mh.S))})
}

// ---------------------------------------------------------------- frames

// heapDesignator resolves "Type.field", "elems(T)", "map(K,V)", "ptr(T)".
func (c *FnCtx) heapDesignators(pkg *types.Package, ds []string) (names map[string]bool, err error) {
	names = map[string]bool{}
	reg := func(name, srt string) {
		names[name] = true
		if _, ok := c.heapSort[name]; !ok {
			c.heapSort[name] = srt
		}
	}
	for _, d := range ds {
		d = strings.TrimSpace(d)
		switch {
		case d == "*":
			names["*"] = true
		case strings.HasPrefix(d, "elems(") && strings.HasSuffix(d, ")"):
			te, e := parseTypeText(d[6 : len(d)-1])
			if e != nil {
				return nil, e
			}
			var T types.Type
			if e := c.try(func() { T = c.resolveType(te, pkg) }); e != nil {
				return nil, e
			}
			hn, hs := c.elemHeap(T)
			reg(hn, hs)
		case strings.HasPrefix(d, "ptr(") && strings.HasSuffix(d, ")"):
			te, e := parseTypeText(d[4 : len(d)-1])
			if e != nil {
				return nil, e
			}
			var T types.Type
			if e := c.try(func() { T = c.resolveType(te, pkg) }); e != nil {
				return nil, e
			}
			reg("P|"+elemKey(T), "(Array Int "+c.sortOf(T)+")")
		case strings.HasPrefix(d, "map(") && strings.HasSuffix(d, ")"):
			parts := strings.SplitN(d[4:len(d)-1], ";", 2)
			if len(parts) != 2 {
				return nil, fmt.Errorf("map(K;V) expected in %q", d)
			}
			kt, e1 := parseTypeText(parts[0])
			vt, e2 := parseTypeText(parts[1])
			if e1 != nil || e2 != nil {
				return nil, fmt.Errorf("bad map designator %q", d)
			}
			var K, V types.Type
			if e := c.try(func() { K = c.resolveType(kt, pkg); V = c.resolveType(vt, pkg) }); e != nil {
				return nil, e
			}
			dn, ds2, vn, vs2 := c.mapHeaps(K, V)
			reg(dn, ds2)
			reg(vn, vs2)
		default:
			i := strings.LastIndex(d, ".")
			if i < 0 {
				return nil, fmt.Errorf("bad heap designator %q", d)
			}
			te, e := parseTypeText(d[:i])
			if e != nil {
				return nil, e
			}
			var T types.Type
			if e := c.try(func() { T = c.resolveType(te, pkg) }); e != nil {
				return nil, e
			}
			fsort := ""
			if st, ok := isStruct(T); ok {
				for fi := 0; fi < st.NumFields(); fi++ {
					if st.Field(fi).Name() == d[i+1:] {
						fsort = "(Array Int " + c.sortOf(st.Field(fi).Type()) + ")"
					}
				}
			}
			if fsort == "" {
				return nil, fmt.Errorf("no field %s in %s", d[i+1:], d[:i])
			}
			reg(fieldHeap(T, d[i+1:]), fsort)
		}
	}
	return names, nil
}

func (c *FnCtx) try(f func()) (err error) {
	defer func() {
		if r := recover(); r != nil {
			err = fmt.Errorf("%v", r)
		}
	}()
	f()
	return nil
}

// checkFrame: every heap not listed in `modifies` is unchanged at return.
func (c *FnCtx) checkFrame(st *State, where string) {
	if c.spec == nil || !c.spec.hasModifies {
		return
	}
	allowed, err := c.heapDesignators(c.fn.Pkg.Pkg, c.spec.modifies)
	if err != nil {
		c.unsupported("modifies clause: %v", err)
		return
	}
	if allowed["*"] {
		return
	}
	var ks []string
	for k := range st.heaps {
		ks = append(ks, k)
	}
	sort.Strings(ks)
	for _, k := range ks {
		if allowed[k] || strings.HasPrefix(k, "IT|") {
			continue
		}
		init := c.heapGet(&State{heaps: map[string]Term{}}, k, c.heapSort[k])
		if st.heaps[k] == init {
			continue
		}
		// changes confined to objects allocated during the call are invisible to the caller
		var goal Term
		if strings.HasPrefix(k, "MD|") || strings.HasPrefix(k, "MV|") || strings.HasPrefix(k, "E|") || strings.HasPrefix(k, "H|") || strings.HasPrefix(k, "P|") {
			goal = fmt.Sprintf("(forall ((r Int)) (! (=> (< r %s) (= (select %s r) (select %s r))) :pattern ((select %s r))))", c.entry.nextRef, st.heaps[k], init, st.heaps[k])
		} else {
			goal = eq(st.heaps[k], init)
		}
		c.emit(&Obligation{Name: fmt.Sprintf("%s.frame.%s", c.spec.oname(), sym(k)), Kind: "frame", Clause: "modifies: " + k + " unchanged on pre-existing objects", Where: where, Hyp: st.pc, Goal: goal})
	}
}

// loopOfVar finds the innermost loop whose blocks contain every DebugRef of the
// source variable `name` (a range key / value or a variable declared in the loop).
func (c *FnCtx) loopOfVar(name string) *loopInfo {
	// a `for i := ...` loop variable is the phi named i at the loop header
	var byPhi []*loopInfo
	for _, li := range c.loopOrd {
		for _, ins := range li.header.Instrs {
			if phi, ok := ins.(*ssa.Phi); ok && phi.Comment == name {
				byPhi = append(byPhi, li)
				break
			}
		}
	}
	if len(byPhi) == 1 {
		return byPhi[0]
	}
	var refs []*ssa.BasicBlock
	var decl []*ssa.BasicBlock
	for _, b := range c.fn.Blocks {
		for _, ins := range b.Instrs {
			if d, ok := ins.(*ssa.DebugRef); ok {
				if obj := d.Object(); obj != nil && obj.Name() == name {
					refs = append(refs, b)
					if d.Expr != nil && d.Expr.Pos() == obj.Pos() {
						decl = append(decl, b)
					}
				}
			}
		}
	}
	if len(refs) == 0 {
		return nil
	}
	innermost := func(bs []*ssa.BasicBlock) *loopInfo {
		var best *loopInfo
		for _, li := range c.loopOrd {
			all := true
			for _, b := range bs {
				if !li.blocks[b] {
					all = false
					break
				}
			}
			if all && (best == nil || len(li.blocks) < len(best.blocks)) {
				best = li
			}
		}
		return best
	}
	// the loop in which the variable is declared (range key/value, := in the body)
	if len(decl) > 0 {
		if li := innermost(decl); li != nil {
			return li
		}
	}
	return innermost(refs)
}

// act returns the activation literal of a named loop invariant: the invariant is
// assumed at its loop head only under this literal, so that an obligation can be
// proved from the subset of invariants it names (`label{a,b}: ...`).
func (c *FnCtx) act(name string) Term {
	if c.acts == nil {
		c.acts = map[string]Term{}
	}
	if t, ok := c.acts[name]; ok {
		return t
	}
	t := c.fresh("act."+name, "Bool")
	c.acts[name] = t
	c.actOrder = append(c.actOrder, name)
	return t
}

// loopExit emits the `loop L exit` assertions on an edge leaving loop li.
func (c *FnCtx) loopExit(li *loopInfo, st *State, cond Term, from *ssa.BasicBlock) {
	if c.spec == nil || c.dry {
		return
	}
	ls := c.spec.loops[li.ordinal]
	if ls == nil || len(ls.exits) == 0 {
		return
	}
	c.curLoop = li
	defer func() { c.curLoop = nil }()
	for i, ex := range ls.exits {
		bc := c.exitBound[ex]
		if bc == nil {
			bc = c.bindClause(ex, c.ss().env, "exit")
			if bc == nil {
				continue
			}
			bc.name = ex.label
			if bc.name == "" {
				bc.name = fmt.Sprintf("loop%d.exit%d", li.ordinal, i+1)
			}
			if c.exitBound == nil {
				c.exitBound = map[*clause]*boundClause{}
			}
			c.exitBound[ex] = bc
		}
		env := c.clauseEnv(bc, st, nil)
		t, err := c.evalBool(bc.body, env)
		if err != nil {
			c.specErr(ex, err)
			continue
		}
		c.emit(&Obligation{Uses: ex.uses, Name: fmt.Sprintf("%s.%s", c.spec.oname(), bc.name), Kind: "loop-exit", Clause: ex.src, Where: fmt.Sprintf("exit of loop %d from b%d", li.ordinal, from.Index), Hyp: cond, Goal: t})
	}
}
