package main

// Forward symbolic execution of one go/ssa function with cut-points at loop
// headers, producing verification conditions in SMT-LIB.

import (
	"fmt"
	"go/constant"
	"go/token"
	"go/types"
	"os"
	"sort"
	"strconv"
	"strings"

	"golang.org/x/tools/go/ssa"
)

type Val struct {
	T    types.Type
	S    Term
	Tup  []*Val
	LV   *LValue
	Virt []*Val // elements of a virtual (heap-less) varargs array / its slice
}

const (
	lvField = iota
	lvElem
	lvCell
	lvPtr
)

type LValue struct {
	SliceT Term // for elements addressed through a slice value: the slice and the relative index
	RelIdx Term
	Kind   int
	Heap   string
	Sort   string // sort of the heap's range (root value)
	Base   Term
	Idx    Term
	Cell   *ssa.Alloc
	Path   []int
	RootT  types.Type
	T      types.Type
}

type State struct {
	pc      Term
	heaps   map[string]Term
	cells   map[*ssa.Alloc]Term
	flags   map[int]Term
	nextRef Term
}

func (s *State) clone() *State {
	n := &State{pc: s.pc, heaps: map[string]Term{}, cells: map[*ssa.Alloc]Term{}, flags: map[int]Term{}, nextRef: s.nextRef}
	for k, v := range s.heaps {
		n.heaps[k] = v
	}
	for k, v := range s.cells {
		n.cells[k] = v
	}
	for k, v := range s.flags {
		n.flags[k] = v
	}
	return n
}

type Obligation struct {
	Name    string
	Kind    string // ensures | requires | invariant-entry | invariant-preserved | decreases | safety | nopanic | lemma | cover | arith
	Func    string
	Clause  string
	Where   string
	Hyp     Term
	Goal    Term
	Extra   []Term // additional asserts only for this obligation
	Cover   bool   // expectation: sat
	Script  string
	Verdict string
	Results []SolverResult
	File    string
	Known   *KnownFinding
	Vacuous bool   // the clause's hypothesis is unsatisfiable: a proof of it counts for nothing
	BindErr string // a clause of this function's contract no longer binds to the code (renamed local, moved loop): failures are undecided, not violations
	Witness string // replay key (kind/slot) when the obligation comes from an expansion
	Props   []string
	Sites   []Site
	Uses    []string // invariant labels to activate (nil = all)
}

// Site is one program point contributing to an aggregated obligation.
type Site struct {
	Where   string          `json:"where"`
	Hyp     Term            `json:"-"`
	Goal    Term            `json:"-"`
	Verdict string          `json:"verdict,omitempty"`
	Block   *ssa.BasicBlock `json:"-"`
	Results []SolverResult  `json:"-"`
	File    string          `json:"-"`
	Uses    []string        `json:"-"`
}

type Flag struct {
	id      int
	callee  string
	args    []specExpr // nil entries = wildcard
	argT    []Term     // evaluated pattern terms ("" = wildcard)
	argV    []*Val
	srcVals map[ssa.Value]bool // for local-name callees
	desc    string
	ret     bool // retof(...): tracks the result of the last matching call
	retT    types.Type
	sort    string
	iter    *loopInfo // iteration-local event of that loop (`loop L body` clauses): reset at the loop head, patterns evaluated at the call
}

type loopInfo struct {
	header  *ssa.BasicBlock
	blocks  map[*ssa.BasicBlock]bool
	ordinal int
	writes  map[string]bool
	cellsW  map[*ssa.Alloc]bool
	anyCall bool
	rangeIx *ssa.Phi
	rangeLn ssa.Value
	nextIt  *ssa.Next // map/string range loops
}

type FnCtx struct {
	sortCtx
	L           *Loaded
	fn          *ssa.Function
	spec        *FuncSpec
	specs       *SpecSet
	asserts     []Term
	regs        map[ssa.Value]*Val
	nfresh      int
	heapSort    map[string]string
	entry       *State
	obls        []*Obligation
	flags       []*Flag
	loops       map[*ssa.BasicBlock]*loopInfo
	loopOrd     []*loopInfo
	dry         bool
	writesB     map[*ssa.BasicBlock]map[string]bool
	cellsWB     map[*ssa.BasicBlock]map[*ssa.Alloc]bool
	callsB      map[*ssa.BasicBlock]bool
	curBlock    *ssa.BasicBlock
	cells       map[*ssa.Alloc]bool // allocs treated as local cells
	ghosts      map[string]*Val
	assumed     map[string]bool
	implUsed    map[string]*types.Named
	funUsed     map[string]string      // uninterpreted function decls
	trusted     map[string]bool        // assumed contracts / observers used
	names       map[string][]ssa.Value // source-level names -> values (DebugRef)
	addrNames   map[string][]ssa.Value // address-taken variables: name -> its address
	houdini     []*candidate
	retVals     []*retSite
	strConst    map[string]string
	curPos      token.Pos
	uid         string
	inst        *clause // instance hypothesis (slots ... assume)
	qDepth      int
	qFacts      [][]Term
	curLoop     *loopInfo
	lemmasUsed  []string
	acts        map[string]Term // activation literal per named loop invariant
	actOrder    []string
	assertBlk   map[int]*ssa.BasicBlock
	reachMemo   map[[2]int]bool
	heapTok     map[string]Term
	assertAct   map[int]string // assumption index -> name of the invariant/lemma/precondition it belongs to
	atPrev      map[string]string
	inl         *inlFrame // non-nil while a function literal is executed in place
	atAny       []*ssa.BasicBlock
	backFrom    *ssa.BasicBlock            // source block of the back edge whose `loop L body` clauses are being checked
	hypSites    map[string][]Term          // per body clause `A ==> B`: (back-edge condition AND A) at every back edge (vacuity guard)
	headPhis    map[*ssa.Phi]*Val          // while the clauses of a back edge are checked: the loop-head values of the header phis
	bindIter    *loopInfo                  // loop whose body clause is being bound
	exitSt      map[*loopInfo]*State       // state in which a loop was last left (for atexit/passed)
	iterEntFlag map[*loopInfo]map[int]Term // value of iteration-local flags on entry to an inner loop
	inlSeq      int
	atFns       map[string]string
	virt        map[*ssa.Alloc][]*Val
	exitBound   map[*clause]*boundClause
	virtAddr    map[*ssa.IndexAddr]virtCell
}

type virtCell struct {
	a *ssa.Alloc
	k int
}

type retSite struct {
	st   *State
	vals []*Val
	pos  token.Pos
}

type candidate struct {
	en    string
	loop  *loopInfo
	desc  string
	entry Term // hyp => goal at entry
	back  []Term
	alive bool
	sites []*ssa.BasicBlock // blocks at which the entry / back-edge goals are stated (for slicing)
}

func newFnCtx(L *Loaded, u *Universe, fn *ssa.Function, spec *FuncSpec, specs *SpecSet) *FnCtx {
	c := &FnCtx{L: L, fn: fn, spec: spec, specs: specs}
	c.sortCtx = sortCtx{u: u, declared: map[string]bool{}, structs: map[string]string{}}
	c.reset()
	return c
}

func (c *FnCtx) reset() {
	c.decls = nil
	c.declared = map[string]bool{}
	if c.structs == nil {
		c.structs = map[string]string{}
	}
	c.asserts = nil
	c.regs = map[ssa.Value]*Val{}
	c.heapSort = map[string]string{}
	c.obls = nil
	c.flags = nil
	c.ghosts = map[string]*Val{}
	c.assumed = map[string]bool{}
	c.implUsed = map[string]*types.Named{}
	c.funUsed = map[string]string{}
	if c.trusted == nil {
		c.trusted = map[string]bool{}
	}
	c.houdini = nil
	c.retVals = nil
	c.strConst = map[string]string{}
	c.nfresh = 0
	c.acts = nil
	c.actOrder = nil
	c.assertBlk = nil
	c.reachMemo = nil
	c.heapTok = nil
	c.assertAct = nil
	c.atFns = nil
	c.atPrev = nil
	c.virt = nil
	c.exitBound = nil
	c.virtAddr = map[*ssa.IndexAddr]virtCell{}
}

func (c *FnCtx) fresh(prefix, srt string) Term {
	c.nfresh++
	n := fmt.Sprintf("%s!%d", sym(prefix), c.nfresh)
	c.declare(n, fmt.Sprintf("(declare-const %s %s)", n, srt))
	if strings.HasPrefix(prefix, "h.") {
		c.heapWF(n, srt)
	}
	return n
}

// heapWF: heap well-typedness, limited to the one fact whose absence makes
// contracts over slices inconsistent: every slice stored in a heap cell has a
// non-negative length. Triggered only by s_len of a cell read.
func (c *FnCtx) heapWF(hsym, srt string) {
	return // slices are well-formed by construction of the Slice sort (prelude axiom 0 <= s_len)
	var ax string
	switch {
	case strings.HasSuffix(srt, "(Array Int (Array Int Slice))"):
		ax = fmt.Sprintf("(forall ((r Int) (i Int)) (! (<= 0 (s_len (select (select %s r) i))) :pattern ((s_len (select (select %s r) i)))))", hsym, hsym)
	case srt == "(Array Int Slice)":
		ax = fmt.Sprintf("(forall ((r Int)) (! (<= 0 (s_len (select %s r))) :pattern ((s_len (select %s r)))))", hsym, hsym)
	default:
		return
	}
	c.asserts = append(c.asserts, ax)
}

func (c *FnCtx) assume(t Term) {
	if t == "true" || t == "" {
		return
	}
	if c.qDepth > 0 {
		// side facts produced while evaluating under a binder stay under it
		c.qFacts[len(c.qFacts)-1] = append(c.qFacts[len(c.qFacts)-1], t)
		return
	}
	c.asserts = append(c.asserts, t)
	if c.assertBlk == nil {
		c.assertBlk = map[int]*ssa.BasicBlock{}
	}
	if c.curBlock != nil {
		c.assertBlk[len(c.asserts)-1] = c.curBlock
	}
}

// relevant reports whether an assumption made while executing block `from` can
// matter for an obligation at block `at`: only if `from` reaches `at` in the
// acyclic CFG (back edges removed). Dropping the others is always sound.
// relevantAny: relevant for `at` or for any block of the current multi-site query.
func (c *FnCtx) relevantAny(from, at *ssa.BasicBlock) bool {
	if len(c.atAny) == 0 {
		return c.relevant(from, at)
	}
	for _, b := range c.atAny {
		if b == nil || c.relevant(from, b) {
			return true
		}
	}
	return false
}

func (c *FnCtx) relevant(from, at *ssa.BasicBlock) bool {
	if from == nil || at == nil || from == at {
		return true
	}
	if c.reachMemo == nil {
		c.reachMemo = map[[2]int]bool{}
	}
	k := [2]int{from.Index, at.Index}
	if v, ok := c.reachMemo[k]; ok {
		return v
	}
	seen := map[*ssa.BasicBlock]bool{}
	stack := []*ssa.BasicBlock{from}
	found := false
	for len(stack) > 0 && !found {
		n := stack[len(stack)-1]
		stack = stack[:len(stack)-1]
		if seen[n] {
			continue
		}
		seen[n] = true
		for _, s := range n.Succs {
			if s.Dominates(n) {
				continue // back edge
			}
			if s == at {
				found = true
				break
			}
			stack = append(stack, s)
		}
	}
	c.reachMemo[k] = found
	return found
}

// define introduces a named constant equal to t (keeps terms small).
func (c *FnCtx) define(prefix, srt string, t Term) Term {
	if len(t) < 40 || c.qDepth > 0 {
		return t
	}
	n := c.fresh(prefix, srt)
	c.assume(eq(n, t))
	return n
}

// ---------------------------------------------------------------- heaps

func (c *FnCtx) heapSym(name string) string { return "h." + sym(name) }

func (c *FnCtx) heapGet(st *State, name, srt string) Term {
	if old, ok := c.heapSort[name]; ok && old != srt {
		c.unsupported("heap %s used at two sorts %s / %s", name, old, srt)
	}
	c.heapSort[name] = srt
	if t, ok := st.heaps[name]; ok {
		return t
	}
	init := c.heapSym(name) + "@0"
	if !c.declared[init] {
		c.declare(init, fmt.Sprintf("(declare-const %s %s)", init, srt))
		c.heapWF(init, srt)
	}
	return init
}

func (c *FnCtx) heapSet(st *State, name, srt string, t Term) {
	c.heapSort[name] = srt
	st.heaps[name] = c.define(c.heapSym(name), srt, t)
	if c.writesB != nil && c.curBlock != nil {
		if c.writesB[c.curBlock] == nil {
			c.writesB[c.curBlock] = map[string]bool{}
		}
		c.writesB[c.curBlock][name] = true
	}
}

func fieldHeap(structT types.Type, fname string) string {
	return "H|" + structKey(structT) + "|" + fname
}

// subRef is the identity of a struct stored inline in another struct.
func (c *FnCtx) subRef(structT types.Type, fname string, base Term) Term {
	f := "sub." + sym(structKey(structT)) + "." + sym(fname)
	c.declare(f, fmt.Sprintf("(declare-fun %s (Int) Int)", f))
	t := app(f, base)
	key := "subnz:" + t
	if !c.assumed[key] {
		c.assumed[key] = true
		c.assume(implies(not(eq(base, "0")), not(eq(t, "0"))))
	}
	return t
}

func isStruct(t types.Type) (*types.Struct, bool) {
	s, ok := types.Unalias(t).Underlying().(*types.Struct)
	return s, ok
}

// loadStruct reads a whole struct value stored at heap object ref.
func (c *FnCtx) loadStruct(st *State, T types.Type, ref Term) Term {
	s, _ := isStruct(T)
	dt := c.sortOf(T)
	var fs []Term
	for i := 0; i < s.NumFields(); i++ {
		f := s.Field(i)
		if _, ok := isStruct(f.Type()); ok {
			fs = append(fs, c.loadStruct(st, f.Type(), c.subRef(T, f.Name(), ref)))
		} else {
			h := c.heapGet(st, fieldHeap(T, f.Name()), "(Array Int "+c.sortOf(f.Type())+")")
			fs = append(fs, app("select", h, ref))
		}
	}
	if len(fs) == 0 {
		fs = []Term{"0"}
	}
	return app("mk."+dt, fs...)
}

func (c *FnCtx) storeStruct(st *State, T types.Type, ref Term, v Term) {
	s, _ := isStruct(T)
	dt := c.sortOf(T)
	for i := 0; i < s.NumFields(); i++ {
		f := s.Field(i)
		fv := app(c.fieldSel(dt, s, i), v)
		if _, ok := isStruct(f.Type()); ok {
			c.storeStruct(st, f.Type(), c.subRef(T, f.Name(), ref), fv)
		} else {
			name := fieldHeap(T, f.Name())
			srt := "(Array Int " + c.sortOf(f.Type()) + ")"
			h := c.heapGet(st, name, srt)
			c.heapSet(st, name, srt, app("store", h, ref, fv))
		}
	}
}

func (c *FnCtx) lvRoot(st *State, lv *LValue) Term {
	switch lv.Kind {
	case lvField, lvPtr:
		return app("select", c.heapGet(st, lv.Heap, lv.Sort), lv.Base)
	case lvElem:
		if lv.SliceT != "" {
			return c.at(c.heapGet(st, lv.Heap, lv.Sort), lv.Sort, lv.SliceT, lv.RelIdx)
		}
		return app("select", app("select", c.heapGet(st, lv.Heap, lv.Sort), lv.Base), lv.Idx)
	case lvCell:
		if t, ok := st.cells[lv.Cell]; ok {
			return t
		}
		return c.zero(lv.RootT)
	}
	panic("lvRoot")
}

func (c *FnCtx) lvLoad(st *State, lv *LValue) Term {
	t := c.lvRoot(st, lv)
	T := lv.RootT
	for _, i := range lv.Path {
		s, _ := isStruct(T)
		t = app(c.fieldSel(c.sortOf(T), s, i), t)
		T = s.Field(i).Type()
	}
	return t
}

func (c *FnCtx) updPath(T types.Type, cur Term, path []int, v Term) Term {
	if len(path) == 0 {
		return v
	}
	s, _ := isStruct(T)
	dt := c.sortOf(T)
	var fs []Term
	for i := 0; i < s.NumFields(); i++ {
		sel := app(c.fieldSel(dt, s, i), cur)
		if i == path[0] {
			fs = append(fs, c.updPath(s.Field(i).Type(), sel, path[1:], v))
		} else {
			fs = append(fs, sel)
		}
	}
	return app("mk."+dt, fs...)
}

func (c *FnCtx) lvStore(st *State, lv *LValue, v Term) {
	nv := v
	if len(lv.Path) > 0 {
		nv = c.updPath(lv.RootT, c.lvRoot(st, lv), lv.Path, v)
	}
	switch lv.Kind {
	case lvField, lvPtr:
		h := c.heapGet(st, lv.Heap, lv.Sort)
		c.heapSet(st, lv.Heap, lv.Sort, app("store", h, lv.Base, nv))
	case lvElem:
		h := c.heapGet(st, lv.Heap, lv.Sort)
		c.heapSet(st, lv.Heap, lv.Sort, app("store", h, lv.Base, app("store", app("select", h, lv.Base), lv.Idx, nv)))
	case lvCell:
		st.cells[lv.Cell] = c.define("cell", c.sortOf(lv.RootT), nv)
		if c.cellsWB != nil && c.curBlock != nil {
			if c.cellsWB[c.curBlock] == nil {
				c.cellsWB[c.curBlock] = map[*ssa.Alloc]bool{}
			}
			c.cellsWB[c.curBlock][lv.Cell] = true
		}
	}
}

// ptrLV resolves a pointer-typed value into an l-value.
func (c *FnCtx) ptrLV(p *Val) *LValue {
	if p.LV != nil {
		return p.LV
	}
	pt, ok := types.Unalias(p.T).Underlying().(*types.Pointer)
	if !ok {
		c.unsupported("dereference of non-pointer %s", p.T)
		return &LValue{Kind: lvPtr, Heap: "P|?", Sort: "(Array Int Int)", Base: p.S, RootT: types.Typ[types.Int], T: types.Typ[types.Int]}
	}
	el := pt.Elem()
	return &LValue{Kind: lvPtr, Heap: "P|" + elemKey(el), Sort: "(Array Int " + c.sortOf(el) + ")", Base: p.S, RootT: el, T: el}
}

func (c *FnCtx) load(st *State, p *Val) *Val {
	pt := types.Unalias(p.T).Underlying().(*types.Pointer)
	el := pt.Elem()
	if p.LV == nil {
		if _, ok := isStruct(el); ok {
			return c.mk(el, c.define("ld", c.sortOf(el), c.loadStruct(st, el, p.S)))
		}
	}
	lv := c.ptrLV(p)
	t := c.lvLoad(st, lv)
	v := c.mk(el, t)
	c.typeAssume(st, v)
	return v
}

func (c *FnCtx) store(st *State, p *Val, v *Val) {
	pt := types.Unalias(p.T).Underlying().(*types.Pointer)
	el := pt.Elem()
	if p.LV == nil {
		if _, ok := isStruct(el); ok {
			c.storeStruct(st, el, p.S, v.S)
			return
		}
	}
	c.lvStore(st, c.ptrLV(p), v.S)
}

func (c *FnCtx) mk(T types.Type, s Term) *Val { return &Val{T: T, S: s} }

// typeAssume adds the facts every value of a Go type satisfies.
func (c *FnCtx) typeAssume(st *State, v *Val) {
	if v == nil || v.S == "" {
		return
	}
	if c.qDepth > 0 {
		// under a binder the well-typedness of loaded cells is rarely needed and its
		// universally quantified form floods E-matching: omitted (always sound to omit)
		return
	}
	key := "ta:" + v.S + ":" + typeKey(v.T)
	if c.assumed[key] {
		return
	}
	c.assumed[key] = true
	T := types.Unalias(v.T)
	switch u := T.Underlying().(type) {
	case *types.Basic:
		if u.Info()&types.IsInteger != 0 {
			c.assume(intRange(T, v.S))
		}
		if u.Info()&types.IsString != 0 && v.S != "str_empty" {
			// ground instances of the string axioms (no quantifiers: keeps `sat` answers decidable)
			c.assume(and(app(">=", app("str_len", v.S), "0"), implies(eq(app("str_len", v.S), "0"), eq(v.S, "str_empty"))))
		}
	case *types.Slice:
		c.assume(and(app("<=", "0", app("s_len", v.S)), app("<=", app("s_len", v.S), app("s_cap", v.S)), app("<=", "0", app("s_off", v.S)),
			app("<=", app("+", app("s_off", v.S), app("s_cap", v.S)), "4611686018427387904"),
			app("<=", "0", app("s_arr", v.S)),
			implies(eq(app("s_arr", v.S), "0"), eq(app("s_cap", v.S), "0"))))
		if st != nil && st.nextRef != "" {
			c.assume(app("<", app("s_arr", v.S), st.nextRef))
		}
	case *types.Interface:
		c.assume(implies(eq(app("itag", v.S), "0"), eq(app("ival", v.S), "0")))
		c.assume(app("<=", "0", app("itag", v.S)))
		if n, ok := T.(*types.Named); ok && closedIfaces[structKey(n)] {
			wf := "inworld." + sym(structKey(n))
			if !c.declared[wf] {
				var ds []Term
				ds = append(ds, eq("t", "0"))
				for _, w := range c.u.world(n) {
					ds = append(ds, eq("t", intLit(int64(c.u.tagOf(w)))))
				}
				c.declare(wf, fmt.Sprintf("(define-fun %s ((t Int)) Bool %s)", wf, or(ds...)))
			}
			c.assume(app(wf, app("itag", v.S)))
			c.trusted["closed world: dynamic types of "+structKey(n)+" are the implementers declared in its package"] = true
		}
	case *types.Pointer, *types.Map, *types.Chan, *types.Signature:
		c.assume(app("<=", "0", v.S))
		if st != nil && st.nextRef != "" {
			c.assume(app("<", v.S, st.nextRef)) // values only refer to objects that already exist
		}
	}
}

// ---------------------------------------------------------------- values

func (c *FnCtx) strLit(s string) Term {
	if s == "" {
		return "str_empty"
	}
	if n, ok := c.strConst[s]; ok {
		return n
	}
	n := fmt.Sprintf("str.%d.%s", len(c.strConst), sym(s))
	if len(n) > 60 {
		n = n[:60]
	}
	c.strConst[s] = n
	c.declare(n, fmt.Sprintf("(declare-const %s Str)", n))
	c.assume(eq(app("str_len", n), intLit(int64(len(s)))))
	return n
}

func (c *FnCtx) constVal(k *ssa.Const) *Val {
	T := k.Type()
	if k.Value == nil {
		return c.mk(T, c.zero(T))
	}
	switch k.Value.Kind() {
	case constant.Bool:
		if constant.BoolVal(k.Value) {
			return c.mk(T, "true")
		}
		return c.mk(T, "false")
	case constant.Int:
		if b, ok := T.Underlying().(*types.Basic); ok && b.Info()&types.IsFloat != 0 {
			return c.mk(T, bigLit(k.Value.ExactString())+".0")
		}
		return c.mk(T, bigLit(k.Value.ExactString()))
	case constant.String:
		return c.mk(T, c.strLit(constant.StringVal(k.Value)))
	case constant.Float:
		f := c.fresh("fconst", "Real")
		return c.mk(T, f)
	}
	c.unsupported("constant %s", k)
	return c.mk(T, c.zero(T))
}

func (c *FnCtx) globalRef(g *ssa.Global) Term {
	n := "glob." + sym(g.RelString(nil))
	if !c.declared[n] {
		c.declare(n, fmt.Sprintf("(declare-const %s Int)", n))
		c.assume(app("<", "0", n))
	}
	return n
}

func (c *FnCtx) funcRef(f *ssa.Function) Term {
	n := "fun." + sym(f.RelString(nil))
	if len(n) > 100 {
		n = n[:100]
	}
	if !c.declared[n] {
		c.declare(n, fmt.Sprintf("(declare-const %s Int)", n))
		c.assume(app("<", "0", n))
	}
	return n
}

func (c *FnCtx) val(st *State, v ssa.Value) *Val {
	if r, ok := c.regs[v]; ok {
		return r
	}
	switch x := v.(type) {
	case *ssa.Const:
		return c.constVal(x)
	case *ssa.Global:
		r := c.mk(x.Type(), c.globalRef(x))
		c.regs[v] = r
		return r
	case *ssa.Function:
		r := c.mk(x.Type(), c.funcRef(x))
		c.regs[v] = r
		return r
	case *ssa.Builtin:
		return c.mk(x.Type(), "0")
	case *ssa.Parameter, *ssa.FreeVar:
		r := c.mk(v.Type(), c.fresh("p."+v.Name(), c.sortOf(v.Type())))
		c.typeAssume(st, r)
		c.regs[v] = r
		return r
	}
	// value not yet computed (e.g. defined in a block we did not execute)
	r := c.mk(v.Type(), c.fresh("u."+v.Name(), c.sortOf(v.Type())))
	if _, ok := v.Type().(*types.Tuple); ok {
		r = c.freshOf(st, v.Type(), "u."+v.Name())
	}
	c.regs[v] = r
	return r
}

func (c *FnCtx) freshOf(st *State, T types.Type, prefix string) *Val {
	if tup, ok := T.(*types.Tuple); ok {
		r := &Val{T: T}
		for i := 0; i < tup.Len(); i++ {
			r.Tup = append(r.Tup, c.freshOf(st, tup.At(i).Type(), fmt.Sprintf("%s.%d", prefix, i)))
		}
		return r
	}
	r := c.mk(T, c.fresh(prefix, c.sortOf(T)))
	c.typeAssume(st, r)
	return r
}

// coerce converts a value to a (param) type: pointer/concrete -> interface boxing.
func (c *FnCtx) coerce(v *Val, to types.Type) Term {
	if _, toI := types.Unalias(to).Underlying().(*types.Interface); toI {
		if _, fromI := types.Unalias(v.T).Underlying().(*types.Interface); !fromI {
			return c.box(v)
		}
	}
	return v.S
}

func (c *FnCtx) box(v *Val) Term {
	if b, ok := v.T.Underlying().(*types.Basic); ok && b.Kind() == types.UntypedNil {
		return "iface_nil"
	}
	tag := intLit(int64(c.u.tagOf(v.T)))
	srt := c.sortOf(v.T)
	if srt == "Int" {
		return app("mk_iface", tag, v.S)
	}
	bf := c.boxFn(srt)
	key := "unbox:" + srt + ":" + v.S
	if !c.assumed[key] {
		c.assumed[key] = true
		// ground instance of unbox(box(x)) == x
		c.assume(eq(app("unbox."+sym(srt), app(bf, v.S)), v.S))
	}
	return app("mk_iface", tag, app(bf, v.S))
}

func (c *FnCtx) boxFn(srt string) string {
	f := "box." + sym(srt)
	if !c.declared[f] {
		c.declare(f, fmt.Sprintf("(declare-fun %s (%s) Int)", f, srt))
		u := "unbox." + sym(srt)
		c.declare(u, fmt.Sprintf("(declare-fun %s (Int) %s)", u, srt))
	}
	return f
}

func (c *FnCtx) unbox(i Term, T types.Type) Term {
	srt := c.sortOf(T)
	if srt == "Int" {
		return app("ival", i)
	}
	c.boxFn(srt)
	return app("unbox."+sym(srt), app("ival", i))
}

// ---------------------------------------------------------------- CFG

func (c *FnCtx) analyzeLoops() bool {
	c.loops = map[*ssa.BasicBlock]*loopInfo{}
	c.loopOrd = nil
	fn := c.fn
	if len(fn.Blocks) == 0 {
		return false
	}
	for _, b := range fn.Blocks {
		for _, s := range b.Succs {
			if s.Dominates(b) {
				li := c.loops[s]
				if li == nil {
					li = &loopInfo{header: s, blocks: map[*ssa.BasicBlock]bool{s: true}}
					c.loops[s] = li
				}
				// natural loop of back edge b->s
				stack := []*ssa.BasicBlock{b}
				for len(stack) > 0 {
					n := stack[len(stack)-1]
					stack = stack[:len(stack)-1]
					if li.blocks[n] {
						continue
					}
					li.blocks[n] = true
					stack = append(stack, n.Preds...)
				}
			}
		}
	}
	// reducibility: every retreating edge in a DFS must be a dominator back edge
	state := map[*ssa.BasicBlock]int{}
	okRed := true
	var dfs func(b *ssa.BasicBlock)
	dfs = func(b *ssa.BasicBlock) {
		state[b] = 1
		for _, s := range b.Succs {
			if state[s] == 1 && !s.Dominates(b) {
				okRed = false
			}
			if state[s] == 0 {
				dfs(s)
			}
		}
		state[b] = 2
	}
	dfs(fn.Blocks[0])
	if !okRed {
		c.unsupported("irreducible control flow")
		return false
	}
	// ordinals by source position of the header block's first positioned instr, fallback block index
	var hs []*loopInfo
	for _, li := range c.loops {
		hs = append(hs, li)
	}
	sort.Slice(hs, func(i, j int) bool { return hs[i].header.Index < hs[j].header.Index })
	for i, li := range hs {
		li.ordinal = i + 1
		// range-index shape
		for _, ins := range li.header.Instrs {
			if phi, ok := ins.(*ssa.Phi); ok && phi.Comment == "rangeindex" {
				li.rangeIx = phi
			}
		}
		if li.rangeIx != nil {
			if iff, ok := li.header.Instrs[len(li.header.Instrs)-1].(*ssa.If); ok {
				if lt, ok := iff.Cond.(*ssa.BinOp); ok && lt.Op == token.LSS {
					li.rangeLn = lt.Y
				}
			}
		}
		for _, ins := range li.header.Instrs {
			if nx, ok := ins.(*ssa.Next); ok {
				li.nextIt = nx
			}
		}
	}
	c.loopOrd = hs
	return true
}

func (c *FnCtx) rpo() []*ssa.BasicBlock {
	seen := map[*ssa.BasicBlock]bool{}
	var post []*ssa.BasicBlock
	var dfs func(b *ssa.BasicBlock)
	dfs = func(b *ssa.BasicBlock) {
		seen[b] = true
		for _, s := range b.Succs {
			if !seen[s] && !s.Dominates(b) {
				dfs(s)
			}
		}
		post = append(post, b)
	}
	dfs(c.fn.Blocks[0])
	for i, j := 0, len(post)-1; i < j; i, j = i+1, j-1 {
		post[i], post[j] = post[j], post[i]
	}
	return post
}

func (c *FnCtx) edgeCond(p *ssa.BasicBlock, succIdx int) Term {
	last := p.Instrs[len(p.Instrs)-1]
	if iff, ok := last.(*ssa.If); ok {
		cv := c.regs[iff.Cond]
		var t Term
		if cv == nil {
			t = c.val(nil, iff.Cond).S
		} else {
			t = cv.S
		}
		if succIdx == 0 {
			return t
		}
		return not(t)
	}
	return "true"
}

type inEdge struct {
	pred *ssa.BasicBlock
	st   *State
	cond Term // full condition: pc_pred_out && branch
}

func (c *FnCtx) mergeStates(label string, edges []inEdge) *State {
	if len(edges) == 1 {
		s := edges[0].st.clone()
		s.pc = c.define("pc."+label, "Bool", edges[0].cond)
		return s
	}
	var conds []Term
	for _, e := range edges {
		conds = append(conds, e.cond)
	}
	out := &State{heaps: map[string]Term{}, cells: map[*ssa.Alloc]Term{}, flags: map[int]Term{}}
	out.pc = c.define("pc."+label, "Bool", or(conds...))
	pick := func(get func(s *State) (Term, bool), dflt func() Term, srt string, prefix string) Term {
		var ts []Term
		same := true
		for _, e := range edges {
			t, ok := get(e.st)
			if !ok {
				t = dflt()
			}
			ts = append(ts, t)
			if t != ts[0] {
				same = false
			}
		}
		if same {
			return ts[0]
		}
		t := ts[len(ts)-1]
		for i := len(ts) - 2; i >= 0; i-- {
			t = ite(conds[i], ts[i], t)
		}
		n := c.fresh(prefix, srt)
		c.assume(eq(n, t))
		return n
	}
	keys := map[string]bool{}
	for _, e := range edges {
		for k := range e.st.heaps {
			keys[k] = true
		}
	}
	var ks []string
	for k := range keys {
		ks = append(ks, k)
	}
	sort.Strings(ks)
	for _, k := range ks {
		k := k
		srt := c.heapSort[k]
		out.heaps[k] = pick(func(s *State) (Term, bool) { t, ok := s.heaps[k]; return t, ok },
			func() Term { return c.heapGet(&State{heaps: map[string]Term{}}, k, srt) }, srt, c.heapSym(k))
	}
	cellKeys := map[*ssa.Alloc]bool{}
	for _, e := range edges {
		for k := range e.st.cells {
			cellKeys[k] = true
		}
	}
	var cks []*ssa.Alloc
	for k := range cellKeys {
		cks = append(cks, k)
	}
	sort.Slice(cks, func(i, j int) bool { return cks[i].Name() < cks[j].Name() })
	for _, k := range cks {
		k := k
		T := k.Type().Underlying().(*types.Pointer).Elem()
		out.cells[k] = pick(func(s *State) (Term, bool) { t, ok := s.cells[k]; return t, ok },
			func() Term { return c.zero(T) }, c.sortOf(T), "cell."+k.Name())
	}
	for _, f := range c.flags {
		id := f.id
		srt, dflt := "Bool", "false"
		if f.ret {
			srt, dflt = f.sort, c.retInit(f)
		}
		out.flags[id] = pick(func(s *State) (Term, bool) { t, ok := s.flags[id]; return t, ok },
			func() Term { return dflt }, srt, fmt.Sprintf("flag%d", id))
	}
	out.nextRef = pick(func(s *State) (Term, bool) { return s.nextRef, true }, func() Term { return "0" }, "Int", "nextref")
	return out
}

// ---------------------------------------------------------------- main loop

// run executes the function. With dry=true nothing is emitted; the pass only
// collects per-block write sets for loop havoc.
func (c *FnCtx) run() {
	if !c.analyzeLoops() {
		return
	}
	// pass 1: discover write sets
	c.dry = true
	c.writesB = map[*ssa.BasicBlock]map[string]bool{}
	c.cellsWB = map[*ssa.BasicBlock]map[*ssa.Alloc]bool{}
	c.callsB = map[*ssa.BasicBlock]bool{}
	c.findCells()
	c.execAll()
	w, cw, cb := c.writesB, c.cellsWB, c.callsB
	hs := c.heapSort
	unsup := c.unsup
	c.reset()
	c.unsup = nil
	_ = unsup
	c.heapSort = map[string]string{}
	for k, v := range hs {
		c.heapSort[k] = v
	}
	for _, li := range c.loopOrd {
		li.writes = map[string]bool{}
		li.cellsW = map[*ssa.Alloc]bool{}
		li.anyCall = false
		for b := range li.blocks {
			for k := range w[b] {
				li.writes[k] = true
			}
			for k := range cw[b] {
				li.cellsW[k] = true
			}
			if cb[b] {
				li.anyCall = true
			}
		}
	}
	c.dry = false
	c.writesB, c.cellsWB, c.callsB = nil, nil, map[*ssa.BasicBlock]bool{}
	c.execAll()
}

// findCells decides which Allocs are non-escaping local cells.
func (c *FnCtx) findCells() {
	c.cells = map[*ssa.Alloc]bool{}
	for _, b := range c.fn.Blocks {
		for _, ins := range b.Instrs {
			a, ok := ins.(*ssa.Alloc)
			if !ok {
				continue
			}
			if c.addrLocalOnly(a, 0) {
				c.cells[a] = true
			}
		}
	}
}

func (c *FnCtx) addrLocalOnly(v ssa.Value, depth int) bool {
	if depth > 6 {
		return false
	}
	refs := v.Referrers()
	if refs == nil {
		return false
	}
	for _, r := range *refs {
		switch x := r.(type) {
		case *ssa.Store:
			if x.Val == v {
				return false
			}
		case *ssa.UnOp:
			if x.Op != token.MUL {
				return false
			}
		case *ssa.FieldAddr:
			if !c.addrLocalOnly(x, depth+1) {
				return false
			}
		case *ssa.IndexAddr:
			if x.X != v || !c.addrLocalOnly(x, depth+1) {
				return false
			}
		case *ssa.DebugRef:
		case *ssa.MakeClosure:
			// captured by a closure that only READS the variable: still a local cell
			fnc, ok := x.Fn.(*ssa.Function)
			if !ok {
				return false
			}
			for k, b := range x.Bindings {
				if b == v {
					if k >= len(fnc.FreeVars) || !freeVarReadOnly(fnc.FreeVars[k], 0) {
						return false
					}
				}
			}
		default:
			return false
		}
	}
	return true
}

// freeVarReadOnly: the closure (and closures it creates) only loads from the captured variable.
func freeVarReadOnly(fv *ssa.FreeVar, depth int) bool {
	if depth > 4 || fv.Referrers() == nil {
		return false
	}
	for _, r := range *fv.Referrers() {
		switch x := r.(type) {
		case *ssa.UnOp:
			if x.Op != token.MUL {
				return false
			}
		case *ssa.DebugRef:
		case *ssa.MakeClosure:
			fnc, ok := x.Fn.(*ssa.Function)
			if !ok {
				return false
			}
			for k, b := range x.Bindings {
				if b == ssa.Value(fv) {
					if k >= len(fnc.FreeVars) || !freeVarReadOnly(fnc.FreeVars[k], depth+1) {
						return false
					}
				}
			}
		default:
			return false
		}
	}
	return true
}

func (c *FnCtx) execAll() {
	fn := c.fn
	c.entry = &State{pc: "true", heaps: map[string]Term{}, cells: map[*ssa.Alloc]Term{}, flags: map[int]Term{}}
	nr := c.fresh("nextref", "Int")
	c.assume(app("<", "0", nr))
	c.entry.nextRef = nr
	// parameters
	st0 := c.entry.clone()
	for _, p := range fn.Params {
		c.val(st0, p)
	}
	for _, p := range fn.FreeVars {
		c.val(st0, p)
	}
	c.collectNames()
	if !c.dry {
		c.setupSpec(st0)
	}
	for _, f := range c.flags {
		if f.ret {
			st0.flags[f.id] = c.retInit(f)
		} else {
			st0.flags[f.id] = "false"
		}
	}
	out := map[*ssa.BasicBlock]*State{}
	order := c.rpo()
	for _, b := range order {
		c.curBlock = b
		var st *State
		li := c.loops[b]
		var edges []inEdge
		for _, p := range b.Preds {
			ps := out[p]
			if ps == nil {
				continue // back edge or unreachable
			}
			if b.Dominates(p) {
				continue
			}
			idx := -1
			for i, s := range p.Succs {
				if s == b {
					// a block may list the same successor twice (if c goto 1 else 1)
					if idx == -1 {
						idx = i
					} else {
						idx = -2
					}
				}
			}
			cond := ps.pc
			if idx >= 0 {
				cond = and(ps.pc, c.edgeCond(p, idx))
			}
			edges = append(edges, inEdge{pred: p, st: ps, cond: cond})
		}
		if b == fn.Blocks[0] {
			st = st0
		} else if len(edges) == 0 {
			continue
		} else {
			st = c.mergeStates(fmt.Sprintf("b%d", b.Index), edges)
		}
		// phis for non-loop-header blocks
		if li == nil {
			for _, ins := range b.Instrs {
				phi, ok := ins.(*ssa.Phi)
				if !ok {
					break
				}
				c.regs[phi] = c.phiMerge(st, phi, edges)
			}
		} else {
			st = c.loopHead(li, st, edges)
		}
		c.execBlock(st, b)
		out[b] = st
		// edges leaving a loop: `loop L exit` assertions
		if !c.dry {
			for i, s := range b.Succs {
				for _, lx := range c.loopOrd {
					if lx.blocks[b] && !lx.blocks[s] {
						c.loopExit(lx, st, and(st.pc, c.edgeCond(b, i)), b)
						if c.exitSt == nil {
							c.exitSt = map[*loopInfo]*State{}
						}
						snap := st.clone()
						snap.pc = c.define(fmt.Sprintf("pc.exit%d", lx.ordinal), "Bool", and(st.pc, c.edgeCond(b, i)))
						c.exitSt[lx] = snap
					}
				}
			}
		}
		// back edges out of b
		for i, s := range b.Succs {
			if s.Dominates(b) {
				if lh := c.loops[s]; lh != nil && !c.dry {
					c.backEdge(lh, b, st, and(st.pc, c.edgeCond(b, i)))
				}
			}
		}
	}
	c.curBlock = nil
}

func (c *FnCtx) retInit(f *Flag) Term {
	n := fmt.Sprintf("ret0.%d", f.id)
	c.declare(n, fmt.Sprintf("(declare-const %s %s)", n, f.sort))
	return n
}

func (c *FnCtx) phiMerge(st *State, phi *ssa.Phi, edges []inEdge) *Val {
	blk := phi.Block()
	var ts []Term
	var conds []Term
	for _, e := range edges {
		for i, p := range blk.Preds {
			if p == e.pred {
				ts = append(ts, c.val(e.st, phi.Edges[i]).S)
				conds = append(conds, e.cond)
				break
			}
		}
	}
	if len(ts) == 0 {
		return c.freshOf(st, phi.Type(), "phi."+phi.Name())
	}
	t := ts[len(ts)-1]
	for i := len(ts) - 2; i >= 0; i-- {
		t = ite(conds[i], ts[i], t)
	}
	v := c.mk(phi.Type(), c.define("phi."+phi.Name(), c.sortOf(phi.Type()), t))
	return v
}

// loopHead: check invariants on entry, havoc, assume invariants.
func (c *FnCtx) loopHead(li *loopInfo, ent *State, edges []inEdge) *State {
	if c.iterEntFlag == nil {
		c.iterEntFlag = map[*loopInfo]map[int]Term{}
	}
	c.iterEntFlag[li] = map[int]Term{}
	for _, f := range c.flags {
		if f.iter != nil && f.iter != li && !f.ret {
			t := ent.flags[f.id]
			if t == "" {
				t = "false"
			}
			c.iterEntFlag[li][f.id] = t
		}
	}
	b := li.header
	// entry values of phis
	entryPhi := map[*ssa.Phi]*Val{}
	for _, ins := range b.Instrs {
		phi, ok := ins.(*ssa.Phi)
		if !ok {
			break
		}
		entryPhi[phi] = c.phiMerge(ent, phi, edges)
	}
	if c.dry {
		for phi := range entryPhi {
			c.regs[phi] = c.freshOf(ent, phi.Type(), "phi."+phi.Name())
		}
		return ent
	}
	// obligations at entry
	for phi, v := range entryPhi {
		c.regs[phi] = v
	}
	c.loopInvariants(li, ent, ent.pc, "entry")
	// havoc
	hd := ent.clone()
	var hk []string
	if li.anyCall {
		for k := range c.heapSort {
			if !heapStable(k) {
				hk = append(hk, k)
			}
		}
	}
	for k := range li.writes {
		hk = append(hk, k)
	}
	sort.Strings(hk)
	for i, k := range hk {
		if i > 0 && hk[i-1] == k {
			continue
		}
		subs := partialStable[k]
		var oldH Term
		if len(subs) > 0 && !c.dry {
			oldH = c.heapGet(hd, k, c.heapSort[k])
		}
		hd.heaps[k] = c.fresh(c.heapSym(k), c.heapSort[k])
		if len(subs) > 0 && !c.dry {
			// iterations keep the heap's values at the references declared immutable
			for _, sub := range subs {
				c.declare(sub, fmt.Sprintf("(declare-fun %s (Int) Int)", sub))
				c.assume(fmt.Sprintf("(forall ((r Int)) (! (=> (< r %s) (= (select %s (%s r)) (select %s (%s r)))) :pattern ((select %s (%s r)))))", ent.nextRef, hd.heaps[k], sub, oldH, sub, hd.heaps[k], sub))
			}
		}
	}
	var cks []*ssa.Alloc
	for k := range li.cellsW {
		cks = append(cks, k)
	}
	sort.Slice(cks, func(i, j int) bool { return cks[i].Name() < cks[j].Name() })
	for _, k := range cks {
		T := k.Type().Underlying().(*types.Pointer).Elem()
		v := c.freshOf(hd, T, "cell."+k.Name())
		hd.cells[k] = v.S
	}
	for _, f := range c.flags {
		if f.iter == li {
			// a new iteration starts: nothing has been called yet
			if f.ret {
				hd.flags[f.id] = c.fresh(fmt.Sprintf("ret%d", f.id), f.sort)
			} else {
				hd.flags[f.id] = "false"
			}
			continue
		}
		if !c.flagTouchedIn(f, li) {
			// no call in the loop can raise this event: the flag keeps its entry value
			if old, ok := ent.flags[f.id]; ok {
				hd.flags[f.id] = old
			}
			continue
		}
		if f.ret {
			hd.flags[f.id] = c.fresh(fmt.Sprintf("ret%d", f.id), f.sort)
			continue
		}
		nf := c.fresh(fmt.Sprintf("flag%d", f.id), "Bool")
		old := ent.flags[f.id]
		if old == "" {
			old = "false"
		}
		c.assume(implies(old, nf))
		hd.flags[f.id] = nf
	}
	nr := c.fresh("nextref", "Int")
	c.assume(app("<=", ent.nextRef, nr))
	hd.nextRef = nr
	var phis []*ssa.Phi
	for phi := range entryPhi {
		phis = append(phis, phi)
	}
	sort.Slice(phis, func(i, j int) bool { return phis[i].Name() < phis[j].Name() })
	for _, phi := range phis {
		c.regs[phi] = c.freshOf(hd, phi.Type(), "phi."+phi.Name())
	}
	hd.pc = ent.pc
	c.loopInvariants(li, hd, hd.pc, "assume")
	return hd
}

func (c *FnCtx) backEdge(li *loopInfo, from *ssa.BasicBlock, st *State, cond Term) {
	// bind phis to their back-edge values, evaluate invariants, restore
	saved := map[*ssa.Phi]*Val{}
	newv := map[*ssa.Phi]*Val{}
	for _, ins := range li.header.Instrs {
		phi, ok := ins.(*ssa.Phi)
		if !ok {
			break
		}
		saved[phi] = c.regs[phi]
		for i, p := range li.header.Preds {
			if p == from {
				newv[phi] = c.val(st, phi.Edges[i])
			}
		}
	}
	// decreases measures are evaluated at head (saved) and at the back edge (newv)
	c.loopDecreases(li, st, cond, saved, newv, from)
	for phi, v := range newv {
		c.regs[phi] = v
	}
	c.headPhis = saved // athead(L, x) of a local x reads the value at the START of the iteration
	c.loopInvariants(li, st, cond, fmt.Sprintf("back.b%d", from.Index))
	c.loopBodies(li, st, cond, from)
	c.headPhis = nil
	for phi, v := range saved {
		c.regs[phi] = v
	}
}

// ---------------------------------------------------------------- instructions

func (c *FnCtx) where(ins ssa.Instruction) string {
	pos := ins.Pos()
	if !pos.IsValid() {
		pos = c.curPos
	}
	if pos.IsValid() {
		p := c.L.prog.Fset.Position(pos)
		return fmt.Sprintf("%s:%d", strings.TrimPrefix(p.Filename, repoDir+"/"), p.Line)
	}
	return fmt.Sprintf("block %d", ins.Block().Index)
}

// emit records an obligation. Obligations with the same name (the same clause
// at several return sites / back edges / instructions) are aggregated into one
// query: the conjunction over all sites of (path condition => goal).
func (c *FnCtx) emit(o *Obligation) {
	if c.dry {
		return
	}
	o.Func = c.fn.RelString(nil)
	if c.spec != nil {
		o.Props = c.spec.props
	}
	if i := strings.Index(o.Name, "@"); i >= 0 {
		o.Name = o.Name[:i]
	}
	site := Site{Where: o.Where, Hyp: o.Hyp, Goal: o.Goal, Block: c.curBlock, Uses: o.Uses}
	for _, p := range c.obls {
		if p.Name == o.Name && p.Cover == o.Cover {
			p.Sites = append(p.Sites, site)
			return
		}
	}
	o.Sites = []Site{site}
	c.obls = append(c.obls, o)
}

// finalize computes the aggregated hypothesis/goal of every obligation.
func (c *FnCtx) finalize() {
	for _, o := range c.obls {
		if len(o.Sites) == 0 {
			continue
		}
		var ws []string
		var gs []Term
		for _, s := range o.Sites {
			ws = append(ws, s.Where)
			if o.Cover {
				gs = append(gs, and(s.Hyp, s.Goal))
			} else {
				gs = append(gs, implies(s.Hyp, s.Goal))
			}
		}
		o.Where = strings.Join(ws, ", ")
		o.Hyp = "true"
		if o.Cover {
			o.Goal = or(gs...)
		} else {
			o.Goal = and(gs...)
		}
	}
}

func (c *FnCtx) safety(st *State, ins ssa.Instruction, what string, cond Term) {
	if c.spec == nil || !c.spec.safety || c.dry {
		return
	}
	if cond == "true" {
		return
	}
	c.emit(&Obligation{Name: fmt.Sprintf("%s.safety.%s", c.spec.oname(), what), Kind: "safety", Clause: what, Where: c.where(ins), Hyp: st.pc, Goal: cond})
	// execution only continues past the instruction when the condition holds (it
	// panics otherwise): strengthen the path condition, never assert globally
	st.pc = c.define("pc.safe", "Bool", and(st.pc, cond))
}

func (c *FnCtx) execBlock(st *State, b *ssa.BasicBlock) {
	for _, ins := range b.Instrs {
		if p := ins.Pos(); p.IsValid() {
			c.curPos = p
		}
		c.execInstr(st, ins)
	}
}

func (c *FnCtx) execInstr(st *State, ins ssa.Instruction) {
	switch x := ins.(type) {
	case *ssa.DebugRef, *ssa.Jump, *ssa.If:
	case *ssa.Phi:
		// handled at block entry
	case *ssa.Alloc:
		c.doAlloc(st, x)
	case *ssa.Store:
		if ia, ok := x.Addr.(*ssa.IndexAddr); ok {
			if vc, ok := c.virtAddr[ia]; ok {
				v := c.val(st, x.Val)
				at := vc.a.Type().Underlying().(*types.Pointer).Elem().Underlying().(*types.Array)
				c.virt[vc.a][vc.k] = &Val{T: at.Elem(), S: c.coerce(v, at.Elem())}
				return
			}
		}
		p := c.val(st, x.Addr)
		v := c.val(st, x.Val)
		c.nilCheck(st, ins, p)
		c.store(st, p, &Val{T: x.Val.Type(), S: c.coerceStore(v, p)})
	case *ssa.UnOp:
		c.doUnOp(st, x)
	case *ssa.BinOp:
		c.doBinOp(st, x)
	case *ssa.FieldAddr:
		c.doFieldAddr(st, x)
	case *ssa.Field:
		sv := c.val(st, x.X)
		s, _ := isStruct(x.X.Type())
		v := c.mk(x.Type(), app(c.fieldSel(c.sortOf(x.X.Type()), s, x.Field), sv.S))
		c.typeAssume(st, v)
		c.regs[x] = v
	case *ssa.IndexAddr:
		c.doIndexAddr(st, x)
	case *ssa.Index:
		av := c.val(st, x.X)
		iv := c.val(st, x.Index)
		if at, ok := x.X.Type().Underlying().(*types.Array); ok {
			c.safety(st, ins, "index", and(app("<=", "0", iv.S), app("<", iv.S, intLit(at.Len()))))
			c.regs[x] = c.mk(x.Type(), app("select", av.S, iv.S))
		} else {
			c.regs[x] = c.freshOf(st, x.Type(), x.Name())
		}
	case *ssa.Lookup:
		c.doLookup(st, x)
	case *ssa.MapUpdate:
		c.doMapUpdate(st, x)
	case *ssa.MakeMap:
		r := c.allocRef(st, x.Name())
		K, V := mapKV(x.Type())
		dn, ds, vn, vs := c.mapHeaps(K, V)
		d := c.heapGet(st, dn, ds)
		c.heapSet(st, dn, ds, app("store", d, r, fmt.Sprintf("((as const (Array %s Bool)) false)", c.sortOf(K))))
		_ = vn
		_ = vs
		c.regs[x] = c.mk(x.Type(), r)
	case *ssa.MakeSlice:
		c.doMakeSlice(st, x)
	case *ssa.MakeChan:
		c.regs[x] = c.mk(x.Type(), c.allocRef(st, x.Name()))
	case *ssa.MakeClosure:
		r := c.allocRef(st, x.Name())
		c.regs[x] = c.mk(x.Type(), r)
	case *ssa.MakeInterface:
		v := c.val(st, x.X)
		r := c.mk(x.Type(), c.box(v))
		c.regs[x] = r
	case *ssa.ChangeInterface:
		c.regs[x] = c.mk(x.Type(), c.val(st, x.X).S)
	case *ssa.ChangeType:
		v := c.val(st, x.X)
		c.regs[x] = &Val{T: x.Type(), S: v.S, LV: v.LV}
	case *ssa.Convert:
		c.doConvert(st, x)
	case *ssa.Extract:
		tv := c.val(st, x.Tuple)
		if x.Index < len(tv.Tup) {
			c.regs[x] = tv.Tup[x.Index]
		} else {
			c.regs[x] = c.freshOf(st, x.Type(), x.Name())
		}
	case *ssa.TypeAssert:
		c.doTypeAssert(st, x)
	case *ssa.Slice:
		c.doSlice(st, x)
	case *ssa.Call:
		c.doCall(st, x, &x.Call, x)
	case *ssa.Return:
		c.doReturn(st, x)
	case *ssa.Panic:
		if !c.dry && c.spec != nil && (c.spec.nopanic || c.spec.safety) {
			c.emit(&Obligation{Name: fmt.Sprintf("%s.nopanic", c.spec.oname()), Kind: "nopanic", Clause: "explicit panic unreachable", Where: c.where(ins), Hyp: st.pc, Goal: "false"})
		}
	case *ssa.Range:
		c.doRange(st, x)
	case *ssa.Next:
		c.doNext(st, x)
	case *ssa.Defer:
		c.unsupported("defer in %s", c.fn.Name())
		c.havocAll(st)
	case *ssa.RunDefers:
		// without Defer instructions this is a no-op
	case *ssa.Go:
		c.eventCall(st, x, &x.Call)
		c.havocAll(st)
	case *ssa.Send, *ssa.Select:
		c.havocAll(st)
		if v, ok := ins.(ssa.Value); ok {
			c.regs[v] = c.freshOf(st, v.Type(), v.Name())
		}
	default:
		c.unsupported("instruction %T", ins)
		if v, ok := ins.(ssa.Value); ok {
			c.regs[v] = c.freshOf(st, v.Type(), v.Name())
		}
	}
}

func (c *FnCtx) coerceStore(v *Val, p *Val) Term { return v.S }

func (c *FnCtx) nilCheck(st *State, ins ssa.Instruction, p *Val) {
	if p.LV != nil && (p.LV.Kind == lvCell) {
		return
	}
	if p.S == "" {
		return
	}
	if c.spec != nil && len(c.spec.nilsafe) > 0 && !c.spec.safety && !c.dry {
		c.nilsafeCheck(st, ins, derefOperand(ins), p)
		return
	}
	c.safety(st, ins, "nil-deref", not(eq(p.S, "0")))
}

// derefOperand is the pointer an instruction dereferences.
func derefOperand(ins ssa.Instruction) ssa.Value {
	switch x := ins.(type) {
	case *ssa.FieldAddr:
		return x.X
	case *ssa.UnOp:
		return x.X
	case *ssa.Store:
		return x.Addr
	case *ssa.IndexAddr:
		return x.X
	case *ssa.Field:
		return x.X
	}
	return nil
}

// nilsafeOrigin: v was read from a field listed in the contract's `nilsafe` clause
// (directly: v = *(&x.F)); returns the designator.
func (c *FnCtx) nilsafeOrigin(v ssa.Value) string {
	ld, ok := v.(*ssa.UnOp)
	if !ok || ld.Op != token.MUL {
		return ""
	}
	fa, ok := ld.X.(*ssa.FieldAddr)
	if !ok {
		return ""
	}
	s, T, _ := isStructPtr(fa.X.Type())
	nt, isNamed := types.Unalias(T).(*types.Named)
	if s == nil || !isNamed {
		return ""
	}
	name := nt.Obj().Name() + "." + s.Field(fa.Field).Name()
	if nt.Obj().Pkg() != nil {
		name = nt.Obj().Pkg().Name() + "." + name
	}
	for _, d := range c.spec.nilsafe {
		if d == name {
			return d
		}
	}
	return ""
}

// nilsafeCheck: a targeted null-safety obligation -- only for pointers read from a field
// that is nil by design (e.g. ssa.Function.Pkg of synthetic functions).
func (c *FnCtx) nilsafeCheck(st *State, ins ssa.Instruction, operand ssa.Value, p *Val) {
	if operand == nil {
		return
	}
	d := c.nilsafeOrigin(operand)
	if d == "" {
		return
	}
	cond := not(eq(p.S, "0"))
	c.emit(&Obligation{Name: fmt.Sprintf("%s.nilsafe.%s", c.spec.oname(), d), Kind: "safety", Clause: "a pointer read from " + d + " (nil by design) is dereferenced only after a nil check", Where: c.where(ins), Hyp: st.pc, Goal: cond})
	st.pc = c.define("pc.safe", "Bool", and(st.pc, cond))
}

func (c *FnCtx) allocRef(st *State, name string) Term {
	r := c.fresh("new."+name, "Int")
	c.assume(eq(r, st.nextRef))
	n := c.fresh("nextref", "Int")
	c.assume(eq(n, app("+", st.nextRef, "1")))
	st.nextRef = n
	return r
}

// isVirtualVarargs: the temporary array go/ssa builds for append(s, x, y): only
// written through constant-index IndexAddr stores and sliced once for an append.
func isVirtualVarargs(x *ssa.Alloc) (int, bool) {
	if x.Comment != "varargs" {
		return 0, false
	}
	at, ok := x.Type().Underlying().(*types.Pointer).Elem().Underlying().(*types.Array)
	if !ok || at.Len() > 8 || x.Referrers() == nil {
		return 0, false
	}
	nslice := 0
	for _, r := range *x.Referrers() {
		switch u := r.(type) {
		case *ssa.IndexAddr:
			if _, isC := u.Index.(*ssa.Const); !isC || u.Referrers() == nil {
				return 0, false
			}
			for _, rr := range *u.Referrers() {
				if st, ok := rr.(*ssa.Store); !ok || st.Addr != u {
					if _, isD := rr.(*ssa.DebugRef); !isD {
						return 0, false
					}
				}
			}
		case *ssa.Slice:
			nslice++
			if u.Low != nil || u.High != nil || u.Max != nil || u.Referrers() == nil {
				return 0, false
			}
			for _, rr := range *u.Referrers() {
				call, ok := rr.(*ssa.Call)
				if !ok {
					return 0, false
				}
				b, isB := call.Call.Value.(*ssa.Builtin)
				if !isB || b.Name() != "append" || len(call.Call.Args) != 2 || call.Call.Args[1] != u {
					return 0, false
				}
			}
		case *ssa.DebugRef:
		default:
			return 0, false
		}
	}
	return int(at.Len()), nslice == 1
}

func (c *FnCtx) doAlloc(st *State, x *ssa.Alloc) {
	el := x.Type().Underlying().(*types.Pointer).Elem()
	if n, ok := isVirtualVarargs(x); ok {
		if c.virt == nil {
			c.virt = map[*ssa.Alloc][]*Val{}
		}
		at := el.Underlying().(*types.Array)
		elems := make([]*Val, n)
		for i := range elems {
			elems[i] = c.mk(at.Elem(), c.zero(at.Elem()))
		}
		c.virt[x] = elems
		c.regs[x] = &Val{T: x.Type(), S: "0", Virt: elems}
		return
	}
	if c.cells[x] {
		lv := &LValue{Kind: lvCell, Cell: x, RootT: el, T: el}
		st.cells[x] = c.zero(el)
		c.regs[x] = &Val{T: x.Type(), LV: lv, S: ""}
		return
	}
	r := c.allocRef(st, x.Name())
	v := c.mk(x.Type(), r)
	if _, ok := isStruct(el); ok {
		c.storeStruct(st, el, r, c.zero(el))
	} else {
		lv := c.ptrLV(v)
		v.LV = lv
		c.lvStore(st, lv, c.zero(el))
	}
	c.regs[x] = v
}

func (c *FnCtx) doFieldAddr(st *State, x *ssa.FieldAddr) {
	base := c.val(st, x.X)
	s, T, _ := isStructPtr(x.X.Type())
	f := s.Field(x.Field)
	if base.LV != nil && (base.LV.Kind != lvPtr || len(base.LV.Path) > 0 || base.S == "") {
		// field of a struct value stored in a cell / element / other l-value
		lv := *base.LV
		lv.Path = append(append([]int{}, lv.Path...), x.Field)
		lv.T = f.Type()
		c.regs[x] = &Val{T: x.Type(), LV: &lv}
		return
	}
	c.nilCheck(st, x, base)
	if _, inl := isStruct(f.Type()); inl {
		c.regs[x] = c.mk(x.Type(), c.subRef(T, f.Name(), base.S))
		return
	}
	lv := &LValue{Kind: lvField, Heap: fieldHeap(T, f.Name()), Sort: "(Array Int " + c.sortOf(f.Type()) + ")", Base: base.S, RootT: f.Type(), T: f.Type()}
	c.regs[x] = &Val{T: x.Type(), LV: lv, S: ""}
}

func (c *FnCtx) elemHeap(el types.Type) (string, string) {
	return "E|" + elemKey(el), "(Array Int (Array Int " + c.sortOf(el) + "))"
}

func (c *FnCtx) doIndexAddr(st *State, x *ssa.IndexAddr) {
	base := c.val(st, x.X)
	iv := c.val(st, x.Index)
	if a, ok := x.X.(*ssa.Alloc); ok && c.virt != nil && c.virt[a] != nil {
		// element of a virtual varargs array: remembered as (alloc, constant index)
		k, _ := strconv.Atoi(strings.Trim(iv.S, "() "))
		c.regs[x] = &Val{T: x.Type(), S: "0", Virt: []*Val{{S: fmt.Sprintf("%d", k)}}, LV: nil}
		c.virtAddr[x] = virtCell{a, k}
		return
	}
	switch u := x.X.Type().Underlying().(type) {
	case *types.Slice:
		hn, hs := c.elemHeap(u.Elem())
		c.safety(st, x, "index", and(app("<=", "0", iv.S), app("<", iv.S, app("s_len", base.S))))
		lv := &LValue{Kind: lvElem, Heap: hn, Sort: hs, Base: app("s_arr", base.S), Idx: app("+", app("s_off", base.S), iv.S), RootT: u.Elem(), T: u.Elem(), SliceT: base.S, RelIdx: iv.S}
		c.regs[x] = &Val{T: x.Type(), LV: lv}
	case *types.Pointer: // pointer to array
		at := u.Elem().Underlying().(*types.Array)
		c.safety(st, x, "index", and(app("<=", "0", iv.S), app("<", iv.S, intLit(at.Len()))))
		if base.LV != nil && base.LV.Kind == lvCell {
			c.unsupported("index into local array cell")
		}
		hn, hs := c.elemHeap(at.Elem())
		lv := &LValue{Kind: lvElem, Heap: hn, Sort: hs, Base: base.S, Idx: iv.S, RootT: at.Elem(), T: at.Elem()}
		c.regs[x] = &Val{T: x.Type(), LV: lv}
	default:
		c.unsupported("IndexAddr on %s", x.X.Type())
		c.regs[x] = c.freshOf(st, x.Type(), x.Name())
	}
}

func mapKV(t types.Type) (types.Type, types.Type) {
	m := types.Unalias(t).Underlying().(*types.Map)
	return m.Key(), m.Elem()
}

func mapElemKey(t types.Type) string {
	t = types.Unalias(t)
	if _, ok := t.(*types.Named); ok {
		if _, basic := t.Underlying().(*types.Basic); basic {
			return typeKey(t)
		}
	}
	return elemKey(t)
}

func (c *FnCtx) mapHeaps(K, V types.Type) (dn, ds, vn, vs string) {
	// map types are convertible only when key and element types are IDENTICAL, so
	// (unlike pointer/element heaps) map heaps are keyed by the named types: a
	// map[K]EscapeStatus never aliases a map[K]edgeFlags
	k := mapElemKey(K) + "|" + mapElemKey(V)
	ks := c.sortOf(K)
	return "MD|" + k, "(Array Int (Array " + ks + " Bool))", "MV|" + k, "(Array Int (Array " + ks + " " + c.sortOf(V) + "))"
}

func (c *FnCtx) mapGet(st *State, mT types.Type, m, k Term) (val Term, has Term) {
	K, V := mapKV(mT)
	dn, ds, vn, vs := c.mapHeaps(K, V)
	d := c.heapGet(st, dn, ds)
	vh := c.heapGet(st, vn, vs)
	has = app("select", app("select", d, m), k)
	val = ite(has, app("select", app("select", vh, m), k), c.zero(V))
	// a nil map has no keys (ground instance; writes to a nil map panic)
	key := "nilmap:" + d + ":" + m + ":" + k
	if !c.assumed[key] {
		c.assumed[key] = true
		c.assume(implies(eq(m, "0"), not(app("select", app("select", d, "0"), k))))
	}
	return
}

func (c *FnCtx) doLookup(st *State, x *ssa.Lookup) {
	mv := c.val(st, x.X)
	kv := c.val(st, x.Index)
	if _, ok := x.X.Type().Underlying().(*types.Map); !ok {
		// string index
		c.regs[x] = c.freshOf(st, x.Type(), x.Name())
		return
	}
	K, V := mapKV(x.X.Type())
	val, has := c.mapGet(st, x.X.Type(), mv.S, c.coerce(kv, K))
	vv := c.mk(V, c.define("lk."+x.Name(), c.sortOf(V), val))
	c.typeAssume(st, vv)
	if x.CommaOk {
		c.regs[x] = &Val{T: x.Type(), Tup: []*Val{vv, c.mk(types.Typ[types.Bool], has)}}
	} else {
		c.regs[x] = vv
	}
}

func (c *FnCtx) doMapUpdate(st *State, x *ssa.MapUpdate) {
	mv := c.val(st, x.Map)
	kv := c.val(st, x.Key)
	vv := c.val(st, x.Value)
	K, V := mapKV(x.Map.Type())
	c.safety(st, x, "nil-map-write", not(eq(mv.S, "0")))
	dn, ds, vn, vs := c.mapHeaps(K, V)
	d := c.heapGet(st, dn, ds)
	vh := c.heapGet(st, vn, vs)
	k := c.coerce(kv, K)
	c.heapSet(st, dn, ds, app("store", d, mv.S, app("store", app("select", d, mv.S), k, "true")))
	c.heapSet(st, vn, vs, app("store", vh, mv.S, app("store", app("select", vh, mv.S), k, c.coerce(vv, V))))
}

func (c *FnCtx) doMakeSlice(st *State, x *ssa.MakeSlice) {
	l := c.val(st, x.Len)
	cp := c.val(st, x.Cap)
	r := c.allocRef(st, x.Name())
	el := x.Type().Underlying().(*types.Slice).Elem()
	hn, hs := c.elemHeap(el)
	h := c.heapGet(st, hn, hs)
	c.heapSet(st, hn, hs, app("store", h, r, fmt.Sprintf("((as const (Array Int %s)) %s)", c.sortOf(el), c.zero(el))))
	c.safety(st, x, "makeslice", and(app("<=", "0", l.S), app("<=", l.S, cp.S)))
	c.regs[x] = c.mk(x.Type(), app("mk_slice", r, "0", l.S, cp.S))
}

func (c *FnCtx) doSlice(st *State, x *ssa.Slice) {
	if a, ok := x.X.(*ssa.Alloc); ok && c.virt != nil && c.virt[a] != nil {
		c.regs[x] = &Val{T: x.Type(), S: "", Virt: c.virt[a]}
		return
	}
	base := c.val(st, x.X)
	if pt, ok := x.X.Type().Underlying().(*types.Pointer); ok {
		if at, ok := pt.Elem().Underlying().(*types.Array); ok && base.S != "" {
			lo, hi := "0", intLit(at.Len())
			if x.Low != nil {
				lo = c.val(st, x.Low).S
			}
			if x.High != nil {
				hi = c.val(st, x.High).S
			}
			c.safety(st, x, "slice-bounds", and(app("<=", "0", lo), app("<=", lo, hi), app("<=", hi, intLit(at.Len()))))
			c.regs[x] = c.mk(x.Type(), c.define("sl."+x.Name(), "Slice", app("mk_slice", base.S, lo, app("-", hi, lo), app("-", intLit(at.Len()), lo))))
			return
		}
	}
	if _, ok := x.X.Type().Underlying().(*types.Slice); !ok {
		c.regs[x] = c.freshOf(st, x.Type(), x.Name())
		return
	}
	lo := "0"
	if x.Low != nil {
		lo = c.val(st, x.Low).S
	}
	hi := app("s_len", base.S)
	if x.High != nil {
		hi = c.val(st, x.High).S
	}
	mx := app("s_cap", base.S)
	if x.Max != nil {
		mx = c.val(st, x.Max).S
	}
	c.safety(st, x, "slice-bounds", and(app("<=", "0", lo), app("<=", lo, hi), app("<=", hi, mx), app("<=", mx, app("s_cap", base.S))))
	t := app("mk_slice", app("s_arr", base.S), app("+", app("s_off", base.S), lo), app("-", hi, lo), app("-", mx, lo))
	c.regs[x] = c.mk(x.Type(), c.define("sl."+x.Name(), "Slice", t))
}

func (c *FnCtx) doUnOp(st *State, x *ssa.UnOp) {
	v := c.val(st, x.X)
	switch x.Op {
	case token.MUL:
		c.nilCheck(st, x, v)
		r := c.load(st, v)
		if x.CommaOk {
			c.unsupported("commaok load")
		}
		c.regs[x] = &Val{T: x.Type(), S: r.S, Tup: r.Tup}
	case token.NOT:
		c.regs[x] = c.mk(x.Type(), not(v.S))
	case token.SUB:
		c.regs[x] = c.mk(x.Type(), app("-", v.S))
	case token.ARROW:
		c.havocAll(st)
		c.regs[x] = c.freshOf(st, x.Type(), x.Name())
	default:
		c.regs[x] = c.freshOf(st, x.Type(), x.Name())
	}
}

func isIntT(t types.Type) (*types.Basic, bool) {
	b, ok := types.Unalias(t).Underlying().(*types.Basic)
	if ok && b.Info()&types.IsInteger != 0 {
		return b, true
	}
	return nil, false
}

func (c *FnCtx) wrap(b *types.Basic, t Term) Term {
	bits, signed := intWidth(b)
	m := pow2(bits)
	lo, hi := intBounds(b)
	// in-range values are unchanged: lets the solver avoid mod in the common case
	x := t
	if len(t) > 30 && c.qDepth == 0 {
		x = c.fresh("raw", "Int")
		c.assume(eq(x, t))
	}
	inr := and(app("<=", lo, x), app("<=", x, hi))
	if !signed {
		return ite(inr, x, app("mod", x, m))
	}
	h := pow2(bits - 1)
	return ite(inr, x, app("-", app("mod", app("+", x, h), m), h))
}

func (c *FnCtx) doBinOp(st *State, x *ssa.BinOp) {
	a := c.val(st, x.X)
	b := c.val(st, x.Y)
	as, bs := a.S, b.S
	// comparisons between interface and concrete operand
	_, aI := types.Unalias(x.X.Type()).Underlying().(*types.Interface)
	_, bI := types.Unalias(x.Y.Type()).Underlying().(*types.Interface)
	if aI && !bI {
		bs = c.box(b)
	}
	if bI && !aI {
		as = c.box(a)
	}
	T := x.Type()
	var r Term
	ib, isInt := isIntT(x.X.Type())
	_, isStr := x.X.Type().Underlying().(*types.Basic)
	isStr = isStr && c.sortOf(x.X.Type()) == "Str"
	arith := func(op string) Term {
		raw := app(op, as, bs)
		if !isInt {
			return raw
		}
		if c.spec != nil && c.spec.arithChecked && !c.dry {
			lo, hi := intBounds(ib)
			c.emit(&Obligation{Name: fmt.Sprintf("%s.arith.no-overflow", c.spec.oname()), Kind: "arith", Clause: "no overflow in " + x.String(), Where: c.where(x), Hyp: st.pc, Goal: and(app("<=", lo, raw), app("<=", raw, hi))})
			st.pc = c.define("pc.arith", "Bool", and(st.pc, and(app("<=", lo, raw), app("<=", raw, hi))))
			return raw
		}
		return c.wrap(ib, raw)
	}
	switch x.Op {
	case token.ADD:
		if isStr {
			r = app("str_concat", as, bs)
			c.assume(eq(app("str_len", r), app("+", app("str_len", as), app("str_len", bs))))
		} else {
			r = arith("+")
		}
	case token.SUB:
		r = arith("-")
	case token.MUL:
		r = arith("*")
	case token.QUO:
		if isInt {
			c.safety(st, x, "div-by-zero", not(eq(bs, "0")))
			// Go truncates toward zero
			q := app("div", app("abs", as), app("abs", bs))
			r = ite(eq(app(">=", as, "0"), app(">=", bs, "0")), q, app("-", q))
		} else {
			r = app("/", as, bs)
		}
	case token.REM:
		if isInt {
			c.safety(st, x, "div-by-zero", not(eq(bs, "0")))
			m := app("mod", app("abs", as), app("abs", bs))
			r = ite(app(">=", as, "0"), m, app("-", m))
		}
	case token.EQL:
		r = eq(as, bs)
	case token.NEQ:
		r = not(eq(as, bs))
	case token.LSS, token.LEQ, token.GTR, token.GEQ:
		op := map[token.Token]string{token.LSS: "<", token.LEQ: "<=", token.GTR: ">", token.GEQ: ">="}[x.Op]
		if isStr {
			switch x.Op {
			case token.LSS:
				r = app("str_lt", as, bs)
			case token.GTR:
				r = app("str_lt", bs, as)
			case token.LEQ:
				r = not(app("str_lt", bs, as))
			case token.GEQ:
				r = not(app("str_lt", as, bs))
			}
		} else {
			r = app(op, as, bs)
		}
	case token.LAND, token.AND:
		if c.sortOf(T) == "Bool" {
			r = and(as, bs)
		}
	case token.LOR, token.OR:
		if c.sortOf(T) == "Bool" {
			r = or(as, bs)
		}
	}
	if r == "" {
		// bit operations etc.: uninterpreted but deterministic
		f := "bop." + sym(x.Op.String()) + "." + sym(c.sortOf(x.X.Type()))
		c.declare(f, fmt.Sprintf("(declare-fun %s (%s %s) %s)", f, c.sortOf(x.X.Type()), c.sortOf(x.Y.Type()), c.sortOf(T)))
		r = app(f, as, bs)
		v := c.mk(T, c.define(x.Name(), c.sortOf(T), r))
		c.typeAssume(st, v)
		c.regs[x] = v
		return
	}
	c.regs[x] = c.mk(T, c.define(x.Name(), c.sortOf(T), r))
}

func (c *FnCtx) doConvert(st *State, x *ssa.Convert) {
	v := c.val(st, x.X)
	fb, fInt := isIntT(x.X.Type())
	tb, tInt := isIntT(x.Type())
	if fInt && tInt {
		fl, fh := intBounds(fb)
		tl, th := intBounds(tb)
		_ = fl
		_ = fh
		_ = tl
		_ = th
		fbits, fs := intWidth(fb)
		tbits, ts := intWidth(tb)
		if (fs == ts && tbits >= fbits) || (!fs && ts && tbits > fbits) {
			c.regs[x] = c.mk(x.Type(), v.S)
			return
		}
		c.regs[x] = c.mk(x.Type(), c.define(x.Name(), "Int", c.wrap(tb, v.S)))
		return
	}
	fsrt, tsrt := c.sortOf(x.X.Type()), c.sortOf(x.Type())
	if fsrt == tsrt && (fsrt == "Str" || fsrt == "Int" && !fInt && !tInt) {
		c.regs[x] = c.mk(x.Type(), v.S)
		return
	}
	f := "conv." + sym(fsrt) + "." + sym(typeKey(x.Type()))
	c.declare(f, fmt.Sprintf("(declare-fun %s (%s) %s)", f, fsrt, tsrt))
	r := c.mk(x.Type(), app(f, v.S))
	c.typeAssume(st, r)
	c.regs[x] = r
}

func (c *FnCtx) implPred(I *types.Named) string {
	n := "impl." + sym(structKey(I))
	c.implUsed[n] = I
	c.declare(n, fmt.Sprintf("(declare-fun %s (Int) Bool)", n))
	return n
}

func (c *FnCtx) doTypeAssert(st *State, x *ssa.TypeAssert) {
	v := c.val(st, x.X)
	at := x.AssertedType
	var ok Term
	var res Term
	if _, isI := types.Unalias(at).Underlying().(*types.Interface); isI {
		if n, isN := types.Unalias(at).(*types.Named); isN {
			ok = and(not(eq(app("itag", v.S), "0")), app(c.implPred(n), app("itag", v.S)))
		} else if types.Unalias(at).Underlying().(*types.Interface).NumMethods() == 0 {
			ok = not(eq(app("itag", v.S), "0"))
		} else {
			ok = c.fresh("ta.ok", "Bool")
		}
		res = v.S
	} else {
		ok = eq(app("itag", v.S), intLit(int64(c.u.tagOf(at))))
		res = c.unbox(v.S, at)
	}
	if x.CommaOk {
		okn := c.define(x.Name()+".ok", "Bool", ok)
		rv := c.mk(at, c.define(x.Name()+".v", c.sortOf(at), ite(okn, res, c.zero(at))))
		c.regs[x] = &Val{T: x.Type(), Tup: []*Val{rv, c.mk(types.Typ[types.Bool], okn)}}
		return
	}
	c.safety(st, x, "type-assert", ok)
	c.regs[x] = c.mk(at, res)
}

func itHeap(x *ssa.Range) string { return "IT|" + x.Name() }

func (c *FnCtx) doRange(st *State, x *ssa.Range) {
	// iterator object; for maps a ghost set of already visited keys
	c.regs[x] = c.mk(x.Type(), c.fresh("iter."+x.Name(), "Int"))
	if _, isM := x.X.Type().Underlying().(*types.Map); isM {
		K, _ := mapKV(x.X.Type())
		srt := "(Array " + c.sortOf(K) + " Bool)"
		c.heapGet(st, itHeap(x), srt)
		c.heapSet(st, itHeap(x), srt, fmt.Sprintf("((as const %s) false)", srt))
	}
}

func (c *FnCtx) doNext(st *State, x *ssa.Next) {
	// Maps are iterated in ARBITRARY order: the key is any not yet visited key of
	// the domain; when the iteration ends every key of the domain has been visited.
	ok := c.fresh(x.Name()+".ok", "Bool")
	tup := x.Type().(*types.Tuple)
	isInvalid := func(t types.Type) bool {
		b, isB := t.Underlying().(*types.Basic)
		return isB && b.Kind() == types.Invalid
	}
	var kv, vv *Val
	rg, isR := x.Iter.(*ssa.Range)
	if isR && !x.IsString {
		if _, isM := rg.X.Type().Underlying().(*types.Map); isM {
			K, V := mapKV(rg.X.Type())
			m := c.val(st, rg.X)
			kv = c.freshOf(st, K, x.Name()+".k")
			val, has := c.mapGet(st, rg.X.Type(), m.S, kv.S)
			srt := "(Array " + c.sortOf(K) + " Bool)"
			vis := c.heapGet(st, itHeap(rg), srt)
			c.assume(implies(ok, and(has, not(app("select", vis, kv.S)))))
			dn, ds, _, _ := c.mapHeaps(K, V)
			d := c.heapGet(st, dn, ds)
			c.assume(implies(not(ok), fmt.Sprintf("(forall ((k %s)) (! (=> (select (select %s %s) k) (select %s k)) :pattern ((select (select %s %s) k)) :pattern ((select %s k))))", c.sortOf(K), d, m.S, vis, d, m.S, vis)))
			c.heapSet(st, itHeap(rg), srt, ite(ok, app("store", vis, kv.S, "true"), vis))
			vv = c.mk(V, c.define(x.Name()+".v", c.sortOf(V), val))
			c.typeAssume(st, vv)
			if isInvalid(tup.At(1).Type()) {
				kv = &Val{T: tup.At(1).Type(), S: "0"}
			}
			if isInvalid(tup.At(2).Type()) {
				vv = &Val{T: tup.At(2).Type(), S: "0"}
			}
			c.trusted["maps are not modified while being ranged over (checked only syntactically)"] = true
		}
	}
	if kv == nil {
		mkv := func(t types.Type, n string) *Val {
			if isInvalid(t) {
				return &Val{T: t, S: "0"}
			}
			return c.freshOf(st, t, n)
		}
		kv = mkv(tup.At(1).Type(), x.Name()+".k")
		vv = mkv(tup.At(2).Type(), x.Name()+".v")
	}
	c.regs[x] = &Val{T: x.Type(), Tup: []*Val{c.mk(types.Typ[types.Bool], ok), kv, vv}}
}

func (c *FnCtx) doReturn(st *State, x *ssa.Return) {
	var vals []*Val
	res := c.fn.Signature.Results()
	if c.inl != nil {
		res = c.inl.fn.Signature.Results()
		for i, r := range x.Results {
			v := c.val(st, r)
			vals = append(vals, &Val{T: res.At(i).Type(), S: c.coerce(v, res.At(i).Type()), Tup: v.Tup})
		}
		c.inl.rets = append(c.inl.rets, &retSite{st: st.clone(), vals: vals, pos: c.curPos})
		return
	}
	for i, r := range x.Results {
		v := c.val(st, r)
		vals = append(vals, &Val{T: res.At(i).Type(), S: c.coerce(v, res.At(i).Type()), Tup: v.Tup})
	}
	if c.dry {
		return
	}
	c.retVals = append(c.retVals, &retSite{st: st.clone(), vals: vals, pos: c.curPos})
	c.checkEnsures(st, vals, c.where(x))
}

// havocAll forgets every non-stable heap and every escaped cell.
func (c *FnCtx) havocAll(st *State) {
	if c.callsB != nil && c.curBlock != nil {
		c.callsB[c.curBlock] = true
	}
	var ks []string
	for k := range c.heapSort {
		if !heapStable(k) {
			ks = append(ks, k)
		}
	}
	sort.Strings(ks)
	for _, k := range ks {
		subs := partialStable[k]
		var old Term
		if len(subs) > 0 && !c.dry {
			old = c.heapGet(st, k, c.heapSort[k])
		}
		st.heaps[k] = c.fresh(c.heapSym(k), c.heapSort[k])
		if len(subs) > 0 && !c.dry {
			// the heap keeps its values at the references declared immutable
			for _, sub := range subs {
				c.declare(sub, fmt.Sprintf("(declare-fun %s (Int) Int)", sub))
				c.assume(fmt.Sprintf("(forall ((r Int)) (! (=> (< r %s) (= (select %s (%s r)) (select %s (%s r)))) :pattern ((select %s (%s r)))))", st.nextRef, st.heaps[k], sub, old, sub, st.heaps[k], sub))
			}
		}
	}
	nr := c.fresh("nextref", "Int")
	c.assume(app("<=", st.nextRef, nr))
	st.nextRef = nr
}

func (c *FnCtx) collectNames() {
	c.names = map[string][]ssa.Value{}
	c.addrNames = map[string][]ssa.Value{}
	for _, b := range c.fn.Blocks {
		for _, ins := range b.Instrs {
			if d, ok := ins.(*ssa.DebugRef); ok && d.IsAddr {
				if obj := d.Object(); obj != nil {
					dup := false
					for _, v := range c.addrNames[obj.Name()] {
						if v == d.X {
							dup = true
						}
					}
					if !dup {
						c.addrNames[obj.Name()] = append(c.addrNames[obj.Name()], d.X)
					}
				}
			}
			if d, ok := ins.(*ssa.DebugRef); ok && !d.IsAddr {
				if obj := d.Object(); obj != nil {
					n := obj.Name()
					dup := false
					for _, v := range c.names[n] {
						if v == d.X {
							dup = true
						}
					}
					if !dup {
						c.names[n] = append(c.names[n], d.X)
					}
				}
			}
		}
	}
}

// assumeNamed records an assumption that belongs to a named invariant, lemma or
// precondition; an obligation that lists what it `uses` gets only those.
func (c *FnCtx) assumeNamed(name string, t Term) {
	if t == "true" || t == "" {
		return
	}
	c.act(name)
	before := len(c.asserts)
	c.assume(t)
	if len(c.asserts) > before {
		if c.assertAct == nil {
			c.assertAct = map[int]string{}
		}
		c.assertAct[len(c.asserts)-1] = name
	}
}

// at(h, s, i) is the i-th element of slice s in element heap h, written with a
// function symbol per heap term so that quantifier triggers over slice elements
// contain no index arithmetic:  at.h(s, i) = h[s_arr s][s_off s + i].
func (c *FnCtx) at(heapTerm Term, heapSort string, s Term, i Term) Term {
	if c.atFns == nil {
		c.atFns = map[string]string{}
	}
	f, ok := c.atFns[heapTerm]
	if !ok {
		f = fmt.Sprintf("at.%d", len(c.atFns))
		c.atFns[heapTerm] = f
		// heapSort = (Array Int (Array Int ELEM))
		elem := strings.TrimSuffix(strings.TrimPrefix(heapSort, "(Array Int (Array Int "), "))")
		c.declare(f, fmt.Sprintf("(declare-fun %s (Slice Int) %s)", f, elem))
		pats := fmt.Sprintf(":pattern ((%s s i))", f)
		if os.Getenv("GOVC_NOFWD") == "" {
			// forward link: an element term of the PREVIOUS version of this heap also
			// introduces the element term of this version (otherwise a witness index known
			// for the old heap never reaches an `exists` goal stated over the new heap)
			if c.atPrev == nil {
				c.atPrev = map[string]string{}
			}
			if prev, ok := c.atPrev[elem]; ok {
				pats += fmt.Sprintf(" :pattern ((%s s i))", prev)
			}
			c.atPrev[elem] = f
		}
		c.asserts = append(c.asserts, fmt.Sprintf("(forall ((s Slice) (i Int)) (! (= (%s s i) (select (select %s (s_arr s)) (+ (s_off s) i))) %s))", f, heapTerm, pats))
	}
	return app(f, s, i)
}
