package main

// Form D: conformance of the standard-library summary table with the signatures
// go/types reports for the installed standard library. One ground obligation per
// table entry: every listed position is a parameter / result position of the
// function (otherwise addParamEdgeByPos/addReturnEdgeByPos discard it silently).

import (
	"fmt"
	"go/ast"
	"go/constant"
	"go/token"
	"go/types"
	"os"
	"sort"
	"strings"

	"golang.org/x/tools/go/packages"
)

const summariesPkg = repoMod + "/analysis/summaries"

type tableEntry struct {
	table string
	key   string
	args  [][]int
	rets  [][]int
	pos   token.Position
}

// evalIntMatrix evaluates [][]int{{0}, {0, 1}}.
func evalIntMatrix(info *types.Info, e ast.Expr) ([][]int, bool) {
	cl, ok := e.(*ast.CompositeLit)
	if !ok {
		return nil, false
	}
	out := [][]int{}
	for _, row := range cl.Elts {
		rcl, ok := row.(*ast.CompositeLit)
		if !ok {
			return nil, false
		}
		r := []int{}
		for _, x := range rcl.Elts {
			tv, ok := info.Types[x]
			if !ok || tv.Value == nil {
				return nil, false
			}
			n, ok := constant.Int64Val(tv.Value)
			if !ok {
				return nil, false
			}
			r = append(r, int(n))
		}
		out = append(out, r)
	}
	return out, true
}

func evalSummaryLit(info *types.Info, e ast.Expr, vars map[string]*tableEntry) (args, rets [][]int, ok bool) {
	switch x := e.(type) {
	case *ast.Ident:
		if v, ok := vars[x.Name]; ok {
			return v.args, v.rets, true
		}
		return nil, nil, false
	case *ast.CompositeLit:
		if len(x.Elts) == 0 {
			return [][]int{}, [][]int{}, true
		}
		if kv, isKV := x.Elts[0].(*ast.KeyValueExpr); isKV {
			_ = kv
			args, rets = [][]int{}, [][]int{}
			for _, el := range x.Elts {
				kv, ok := el.(*ast.KeyValueExpr)
				if !ok {
					return nil, nil, false
				}
				m, ok := evalIntMatrix(info, kv.Value)
				if !ok {
					return nil, nil, false
				}
				switch kv.Key.(*ast.Ident).Name {
				case "Args":
					args = m
				case "Rets":
					rets = m
				}
			}
			return args, rets, true
		}
		if len(x.Elts) != 2 {
			return nil, nil, false
		}
		a, ok1 := evalIntMatrix(info, x.Elts[0])
		r, ok2 := evalIntMatrix(info, x.Elts[1])
		return a, r, ok1 && ok2
	}
	return nil, nil, false
}

// readSummaryTable extracts every entry of every map reachable from stdPackages.
func readSummaryTable(L *Loaded) ([]tableEntry, []string, error) {
	p := L.all[summariesPkg]
	if p == nil {
		return nil, nil, fmt.Errorf("package %s not loaded", summariesPkg)
	}
	var problems []string
	vars := map[string]*tableEntry{} // Summary-typed package variables
	maps := map[string]*ast.CompositeLit{}
	for _, f := range p.Syntax {
		for _, d := range f.Decls {
			gd, ok := d.(*ast.GenDecl)
			if !ok || gd.Tok != token.VAR {
				continue
			}
			for _, sp := range gd.Specs {
				vs := sp.(*ast.ValueSpec)
				for i, n := range vs.Names {
					if i >= len(vs.Values) {
						continue
					}
					obj := p.TypesInfo.Defs[n]
					if obj == nil {
						continue
					}
					ts := obj.Type().String()
					if strings.HasSuffix(ts, "summaries.Summary") && !strings.HasPrefix(ts, "map") {
						a, r, ok := evalSummaryLit(p.TypesInfo, vs.Values[i], vars)
						if ok {
							vars[n.Name] = &tableEntry{args: a, rets: r}
						} else {
							problems = append(problems, "cannot evaluate summary variable "+n.Name)
						}
					}
					if cl, ok := vs.Values[i].(*ast.CompositeLit); ok && strings.HasPrefix(ts, "map[string]") && strings.HasSuffix(ts, "summaries.Summary") {
						maps[n.Name] = cl
					}
				}
			}
		}
	}
	// which maps are reachable from stdPackages
	reach := map[string]bool{}
	for _, f := range p.Syntax {
		ast.Inspect(f, func(n ast.Node) bool {
			vs, ok := n.(*ast.ValueSpec)
			if !ok || len(vs.Names) != 1 || vs.Names[0].Name != "stdPackages" || len(vs.Values) != 1 {
				return true
			}
			if cl, ok := vs.Values[0].(*ast.CompositeLit); ok {
				for _, el := range cl.Elts {
					if kv, ok := el.(*ast.KeyValueExpr); ok {
						if id, ok := kv.Value.(*ast.Ident); ok {
							reach[id.Name] = true
						}
					}
				}
			}
			return false
		})
	}
	var out []tableEntry
	var names []string
	for n := range maps {
		names = append(names, n)
	}
	sort.Strings(names)
	for _, n := range names {
		if !reach[n] {
			continue
		}
		for _, el := range maps[n].Elts {
			kv, ok := el.(*ast.KeyValueExpr)
			if !ok {
				continue
			}
			tv := p.TypesInfo.Types[kv.Key]
			if tv.Value == nil {
				problems = append(problems, "non-constant key in "+n)
				continue
			}
			key := constant.StringVal(tv.Value)
			a, r, ok := evalSummaryLit(p.TypesInfo, kv.Value, vars)
			if !ok {
				problems = append(problems, fmt.Sprintf("cannot evaluate entry %q of %s", key, n))
				continue
			}
			out = append(out, tableEntry{table: n, key: key, args: a, rets: r, pos: p.Fset.Position(kv.Pos())})
		}
	}
	return out, problems, nil
}

// splitKey parses function.String() forms: "pkg/path.Func", "(*pkg/path.T).M", "(pkg/path.T).M".
func splitKey(key string) (pkg, typ, name string, ptr bool, ok bool) {
	if strings.HasPrefix(key, "(") {
		i := strings.Index(key, ").")
		if i < 0 {
			return
		}
		recv := key[1:i]
		name = key[i+2:]
		if strings.HasPrefix(recv, "*") {
			ptr = true
			recv = recv[1:]
		}
		j := strings.LastIndex(recv, ".")
		if j < 0 {
			return
		}
		return recv[:j], recv[j+1:], name, ptr, true
	}
	j := strings.LastIndex(key, ".")
	if j < 0 {
		return
	}
	return key[:j], "", key[j+1:], false, true
}

func loadStdTypes(paths []string) (map[string]*types.Package, error) {
	cfg := &packages.Config{Mode: packages.NeedName | packages.NeedTypes | packages.NeedImports | packages.NeedDeps, Dir: repoDir,
		Env: append(os.Environ(), "GOFLAGS=-mod=mod", "GOPROXY=off", "GOSUMDB=off", "GOTOOLCHAIN=local")}
	pkgs, err := packages.Load(cfg, paths...)
	if err != nil {
		return nil, err
	}
	out := map[string]*types.Package{}
	for _, p := range pkgs {
		if p.Types != nil && len(p.Errors) == 0 {
			out[p.PkgPath] = p.Types
		}
	}
	return out, nil
}

// runTableConformance produces one obligation per table entry.
func runTableConformance(L *Loaded, prop string, tmo, seed int) ([]*Obligation, []string, map[string]any) {
	entries, problems, err := readSummaryTable(L)
	if err != nil {
		return nil, []string{err.Error()}, nil
	}
	pkgSet := map[string]bool{}
	for _, e := range entries {
		if pk, _, _, _, ok := splitKey(e.key); ok {
			pkgSet[pk] = true
		}
	}
	var paths []string
	for p := range pkgSet {
		paths = append(paths, p)
	}
	sort.Strings(paths)
	std := map[string]*types.Package{}
	// packages already loaded with /repo need no second load
	var missing []string
	for _, p := range paths {
		if tp := L.tpkgs[p]; tp != nil {
			std[p] = tp
		} else {
			missing = append(missing, p)
		}
	}
	if len(missing) > 0 {
		more, err := loadStdTypes(missing)
		if err != nil {
			problems = append(problems, "loading standard library signatures: "+err.Error())
		}
		for k, v := range more {
			std[k] = v
		}
	}
	var obls []*Obligation
	var jobs []job
	var unresolved []string
	for _, e := range entries {
		pk, tn, fn, _, ok := splitKey(e.key)
		var sig *types.Signature
		if ok {
			if tp := std[pk]; tp != nil {
				if tn == "" {
					if f, ok := tp.Scope().Lookup(fn).(*types.Func); ok {
						sig = f.Type().(*types.Signature)
					}
				} else if o, ok := tp.Scope().Lookup(tn).(*types.TypeName); ok {
					obj, _, _ := types.LookupFieldOrMethod(types.NewPointer(o.Type()), true, tp, fn)
					if f, ok := obj.(*types.Func); ok {
						sig = f.Type().(*types.Signature)
					}
				}
			}
		}
		if sig == nil {
			unresolved = append(unresolved, e.key)
			continue
		}
		np := sig.Params().Len()
		if sig.Recv() != nil {
			np++
		}
		nr := sig.Results().Len()
		if os.Getenv("GOVC_TABLESTATS") != "" {
			for p := 0; p < np; p++ {
				var pt types.Type
				if sig.Recv() != nil {
					if p == 0 {
						pt = sig.Recv().Type()
					} else {
						pt = sig.Params().At(p - 1).Type()
					}
				} else {
					pt = sig.Params().At(p).Type()
				}
				tgt := 0
				if p < len(e.rets) {
					tgt += len(e.rets[p])
				}
				if p < len(e.args) {
					for _, d := range e.args[p] {
						if d != p {
							tgt++
						}
					}
				}
				if tgt == 0 {
					fmt.Fprintf(os.Stderr, "DROPPED %s pos %d type %s results %d sig %s\n", e.key, p, pt, nr, sig)
				}
			}
		}
		var sb strings.Builder
		sb.WriteString("; table conformance of " + e.key + " : " + sig.String() + "\n")
		sb.WriteString(fmt.Sprintf("(declare-const nparams Int)\n(declare-const nresults Int)\n(assert (= nparams %d))\n(assert (= nresults %d))\n", np, nr))
		var goals []Term
		goals = append(goals, fmt.Sprintf("(<= %d nparams)", len(e.args)), fmt.Sprintf("(<= %d nparams)", len(e.rets)))
		for _, row := range e.args {
			for _, d := range row {
				goals = append(goals, fmt.Sprintf("(and (<= 0 %d) (< %d nparams))", d, d))
			}
		}
		for _, row := range e.rets {
			for _, d := range row {
				goals = append(goals, fmt.Sprintf("(and (<= 0 %d) (< %d nresults))", d, d))
			}
		}
		sb.WriteString("(assert (not " + and(goals...) + "))\n(check-sat)\n")
		o := &Obligation{Name: fmt.Sprintf("%s.table.%s", prop, e.key), Kind: "table", Func: summariesPkg + "." + e.table,
			Clause: fmt.Sprintf("every position listed for %s (Args %v, Rets %v) exists in its signature %s (params incl. receiver: %d, results: %d)", e.key, e.args, e.rets, sig.String(), np, nr),
			Where:  fmt.Sprintf("%s:%d", strings.TrimPrefix(e.pos.Filename, repoDir+"/"), e.pos.Line),
			Hyp:    "true", Goal: and(goals...), Witness: e.key, Props: []string{prop}}
		o.Script = sb.String()
		obls = append(obls, o)
		jobs = append(jobs, job{o: o, script: o.Script, tmo: tmo})
	}
	dischargeAll(jobs, seed)
	sort.Strings(unresolved)
	info := map[string]any{"table_entries": len(entries), "resolved": len(obls), "unresolved_keys": unresolved}
	return obls, problems, info
}
