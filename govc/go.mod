module govc

go 1.22

require golang.org/x/tools v0.24.0

require (
	golang.org/x/mod v0.20.0 // indirect
	golang.org/x/sync v0.8.0 // indirect
)
