package main

// Inlining of simple side-effect-free callees (getters) and dynamic dispatch of
// interface methods over a closed world of such implementations. Inlining
// executes the callee's real SSA body: no contract is assumed.

import (
	"go/token"
	"go/types"
	"strings"

	"golang.org/x/tools/go/ssa"
)

// inlineable: single block, only loads / field selections / conversions.
func inlineable(f *ssa.Function) bool {
	if f == nil || len(f.Blocks) != 1 || f.Signature.Results().Len() != 1 {
		return false
	}
	if f.Pkg == nil || !strings.HasPrefix(f.Pkg.Pkg.Path(), repoMod) {
		return false
	}
	n := 0
	for _, ins := range f.Blocks[0].Instrs {
		switch x := ins.(type) {
		case *ssa.DebugRef, *ssa.Return, *ssa.FieldAddr, *ssa.Field, *ssa.MakeInterface, *ssa.ChangeType, *ssa.ChangeInterface, *ssa.Convert:
		case *ssa.UnOp:
			if x.Op != token.MUL && x.Op != token.NOT && x.Op != token.SUB {
				return false
			}
		case *ssa.BinOp:
		default:
			return false
		}
		n++
	}
	return n <= 24
}

func (c *FnCtx) inlineSimple(st *State, f *ssa.Function, args []*Val) (*Val, bool) {
	if !inlineable(f) || len(args) != len(f.Params) {
		return nil, false
	}
	for i, p := range f.Params {
		a := args[i]
		c.regs[p] = &Val{T: p.Type(), S: c.coerce(a, p.Type()), LV: a.LV}
		if a.T == nil {
			if a.S == "nil" {
				c.regs[p] = c.mk(p.Type(), c.zero(p.Type()))
			} else {
				c.regs[p] = c.mk(p.Type(), a.S)
			}
		}
	}
	var res *Val
	saveSpec := c.spec
	for _, ins := range f.Blocks[0].Instrs {
		if r, ok := ins.(*ssa.Return); ok {
			v := c.val(st, r.Results[0])
			rt := f.Signature.Results().At(0).Type()
			res = &Val{T: rt, S: c.coerce(v, rt)}
			break
		}
		c.execInstr(st, ins)
	}
	c.spec = saveSpec
	return res, res != nil
}

// repoClosedIface reports whether T is a closed interface declared in /repo.
func repoClosedIface(T types.Type) (*types.Named, bool) {
	n, ok := types.Unalias(T).(*types.Named)
	if !ok || n.Obj().Pkg() == nil {
		return nil, false
	}
	if _, isI := n.Underlying().(*types.Interface); !isI {
		return nil, false
	}
	return n, closedIfaces[structKey(n)] && strings.HasPrefix(n.Obj().Pkg().Path(), repoMod)
}

// dispatchInline models recv.m(args) for an interface value of a closed /repo
// interface when every implementation of m is inlineable: the result is the
// case split over the dynamic type.
func (c *FnCtx) dispatchInline(st *State, recv *Val, mname string, args []*Val) (*Val, bool) {
	n, ok := repoClosedIface(recv.T)
	if !ok {
		return nil, false
	}
	world := c.u.world(n)
	if len(world) == 0 {
		return nil, false
	}
	type alt struct {
		T types.Type
		f *ssa.Function
	}
	var alts []alt
	for _, T := range world {
		sel := c.L.prog.MethodSets.MethodSet(T).Lookup(n.Obj().Pkg(), mname)
		if sel == nil {
			return nil, false
		}
		f := c.L.prog.MethodValue(sel)
		if !inlineable(f) {
			return nil, false
		}
		alts = append(alts, alt{T, f})
	}
	var out *Val
	for i := len(alts) - 1; i >= 0; i-- {
		a := alts[i]
		rv := c.mk(a.T, c.unbox(recv.S, a.T))
		r, ok := c.inlineSimple(st, a.f, append([]*Val{rv}, args...))
		if !ok {
			return nil, false
		}
		if out == nil {
			out = r
			continue
		}
		out = &Val{T: r.T, S: ite(eq(app("itag", recv.S), intLit(int64(c.u.tagOf(a.T)))), r.S, out.S)}
	}
	if out != nil && len(out.S) > 60 && c.qDepth == 0 {
		out = &Val{T: out.T, S: c.define("disp."+mname, c.sortOf(out.T), out.S)}
	}
	return out, out != nil
}
