package main

// Inlining of simple side-effect-free callees (getters) and dynamic dispatch of
// interface methods over a closed world of such implementations. Inlining
// executes the callee's real SSA body: no contract is assumed.

import (
	"fmt"
	"go/token"
	"go/types"
	"strings"

	"golang.org/x/tools/go/ssa"
)

// inlineable: single block, only loads / field selections / conversions.
func inlineable(f *ssa.Function) bool {
	if f == nil || len(f.Blocks) != 1 || f.Signature.Results().Len() != 1 {
		return false
	}
	if f.Pkg == nil || !strings.HasPrefix(f.Pkg.Pkg.Path(), repoMod) {
		return false
	}
	n := 0
	for _, ins := range f.Blocks[0].Instrs {
		switch x := ins.(type) {
		case *ssa.DebugRef, *ssa.Return, *ssa.FieldAddr, *ssa.Field, *ssa.MakeInterface, *ssa.ChangeType, *ssa.ChangeInterface, *ssa.Convert:
		case *ssa.UnOp:
			if x.Op != token.MUL && x.Op != token.NOT && x.Op != token.SUB {
				return false
			}
		case *ssa.BinOp:
		default:
			return false
		}
		n++
	}
	return n <= 24
}

func (c *FnCtx) inlineSimple(st *State, f *ssa.Function, args []*Val) (*Val, bool) {
	if !inlineable(f) || len(args) != len(f.Params) {
		return nil, false
	}
	for i, p := range f.Params {
		a := args[i]
		c.regs[p] = &Val{T: p.Type(), S: c.coerce(a, p.Type()), LV: a.LV}
		if a.T == nil {
			if a.S == "nil" {
				c.regs[p] = c.mk(p.Type(), c.zero(p.Type()))
			} else {
				c.regs[p] = c.mk(p.Type(), a.S)
			}
		}
	}
	var res *Val
	saveSpec := c.spec
	for _, ins := range f.Blocks[0].Instrs {
		if r, ok := ins.(*ssa.Return); ok {
			v := c.val(st, r.Results[0])
			rt := f.Signature.Results().At(0).Type()
			res = &Val{T: rt, S: c.coerce(v, rt)}
			break
		}
		c.execInstr(st, ins)
	}
	c.spec = saveSpec
	return res, res != nil
}

// repoClosedIface reports whether T is a closed interface declared in /repo.
func repoClosedIface(T types.Type) (*types.Named, bool) {
	n, ok := types.Unalias(T).(*types.Named)
	if !ok || n.Obj().Pkg() == nil {
		return nil, false
	}
	if _, isI := n.Underlying().(*types.Interface); !isI {
		return nil, false
	}
	return n, closedIfaces[structKey(n)] && strings.HasPrefix(n.Obj().Pkg().Path(), repoMod)
}

// dispatchInline models recv.m(args) for an interface value of a closed /repo
// interface when every implementation of m is inlineable: the result is the
// case split over the dynamic type.
func (c *FnCtx) dispatchInline(st *State, recv *Val, mname string, args []*Val) (*Val, bool) {
	n, ok := repoClosedIface(recv.T)
	if !ok {
		return nil, false
	}
	world := c.u.world(n)
	if len(world) == 0 {
		return nil, false
	}
	type alt struct {
		T types.Type
		f *ssa.Function
	}
	var alts []alt
	for _, T := range world {
		sel := c.L.prog.MethodSets.MethodSet(T).Lookup(n.Obj().Pkg(), mname)
		if sel == nil {
			return nil, false
		}
		f := c.L.prog.MethodValue(sel)
		if !inlineable(f) {
			return nil, false
		}
		alts = append(alts, alt{T, f})
	}
	var out *Val
	for i := len(alts) - 1; i >= 0; i-- {
		a := alts[i]
		rv := c.mk(a.T, c.unbox(recv.S, a.T))
		r, ok := c.inlineSimple(st, a.f, append([]*Val{rv}, args...))
		if !ok {
			return nil, false
		}
		if out == nil {
			out = r
			continue
		}
		out = &Val{T: r.T, S: ite(eq(app("itag", recv.S), intLit(int64(c.u.tagOf(a.T)))), r.S, out.S)}
	}
	if out != nil && len(out.S) > 60 && c.qDepth == 0 {
		out = &Val{T: out.T, S: c.define("disp."+mname, c.sortOf(out.T), out.S)}
	}
	return out, out != nil
}

// ---------------------------------------------------------------------------
// Inlining of function literals that are called where they are created (or through
// a local variable holding the closure): the callee's real SSA body is executed in
// place, block by block, when its control-flow graph is acyclic. Captured variables
// are the caller's own objects (the bindings of the MakeClosure).

type inlFrame struct {
	fn   *ssa.Function
	rets []*retSite
}

func acyclicInlineable(f *ssa.Function) bool {
	if f == nil || len(f.Blocks) == 0 || len(f.Blocks) > 48 || f.Recover != nil {
		return false
	}
	for _, b := range f.Blocks {
		for _, s := range b.Succs {
			if s.Dominates(b) {
				return false // loop
			}
		}
		for _, ins := range b.Instrs {
			switch ins.(type) {
			case *ssa.Defer, *ssa.Go, *ssa.Select, *ssa.RunDefers:
				return false
			}
		}
	}
	return true
}

func rpoOf(f *ssa.Function) []*ssa.BasicBlock {
	seen := map[*ssa.BasicBlock]bool{}
	var post []*ssa.BasicBlock
	var dfs func(b *ssa.BasicBlock)
	dfs = func(b *ssa.BasicBlock) {
		seen[b] = true
		for _, s := range b.Succs {
			if !seen[s] {
				dfs(s)
			}
		}
		post = append(post, b)
	}
	dfs(f.Blocks[0])
	for i, j := 0, len(post)-1; i < j; i, j = i+1, j-1 {
		post[i], post[j] = post[j], post[i]
	}
	return post
}

// inlineClosureCall executes mc.Fn(args...) in place. st is updated to the state after the call.
func (c *FnCtx) inlineClosureCall(st *State, mc *ssa.MakeClosure, args []*Val) ([]*Val, bool) {
	f, ok := mc.Fn.(*ssa.Function)
	if !ok || !acyclicInlineable(f) || len(args) != len(f.Params) || len(mc.Bindings) != len(f.FreeVars) || c.inl != nil {
		return nil, false
	}
	for i, p := range f.Params {
		a := args[i]
		switch {
		case a.T == nil && a.S == "nil":
			c.regs[p] = c.mk(p.Type(), c.zero(p.Type()))
		case a.T == nil:
			c.regs[p] = c.mk(p.Type(), a.S)
		default:
			c.regs[p] = &Val{T: p.Type(), S: c.coerce(a, p.Type()), LV: a.LV, Tup: a.Tup}
		}
	}
	for i, fv := range f.FreeVars {
		b := c.val(st, mc.Bindings[i])
		c.regs[fv] = &Val{T: fv.Type(), S: b.S, LV: b.LV}
	}
	frame := &inlFrame{fn: f}
	c.inl = frame
	defer func() { c.inl = nil }()
	c.inlSeq++
	tag := fmt.Sprintf("inl%d", c.inlSeq)
	out := map[*ssa.BasicBlock]*State{}
	entry := st.clone()
	for _, b := range rpoOf(f) {
		var stb *State
		var edges []inEdge
		for _, p := range b.Preds {
			ps := out[p]
			if ps == nil {
				continue
			}
			idx := -1
			for i, s := range p.Succs {
				if s == b {
					if idx == -1 {
						idx = i
					} else {
						idx = -2
					}
				}
			}
			cond := ps.pc
			if idx >= 0 {
				cond = and(ps.pc, c.edgeCond(p, idx))
			}
			edges = append(edges, inEdge{pred: p, st: ps, cond: cond})
		}
		if b == f.Blocks[0] {
			stb = entry
		} else if len(edges) == 0 {
			continue
		} else {
			stb = c.mergeStates(fmt.Sprintf("%s.b%d", tag, b.Index), edges)
		}
		for _, ins := range b.Instrs {
			phi, ok := ins.(*ssa.Phi)
			if !ok {
				break
			}
			c.regs[phi] = c.phiMerge(stb, phi, edges)
		}
		c.execBlock(stb, b)
		out[b] = stb
	}
	if len(frame.rets) == 0 {
		return nil, false
	}
	var edges []inEdge
	for _, r := range frame.rets {
		edges = append(edges, inEdge{st: r.st, cond: r.st.pc})
	}
	merged := c.mergeStates(tag+".ret", edges)
	nres := f.Signature.Results().Len()
	var results []*Val
	for k := 0; k < nres; k++ {
		rt := f.Signature.Results().At(k).Type()
		t := frame.rets[len(frame.rets)-1].vals[k].S
		for i := len(frame.rets) - 2; i >= 0; i-- {
			t = ite(frame.rets[i].st.pc, frame.rets[i].vals[k].S, t)
		}
		if len(frame.rets) > 1 {
			t = c.define(fmt.Sprintf("%s.res%d", tag, k), c.sortOf(rt), t)
		}
		results = append(results, &Val{T: rt, S: t})
	}
	st.pc, st.heaps, st.cells, st.flags, st.nextRef = merged.pc, merged.heaps, merged.cells, merged.flags, merged.nextRef
	return results, true
}
