package main

// Form C: lemmas — closed formulas over spec functions and contracts.

import (
	"fmt"
	"go/types"
	"strings"

	"golang.org/x/tools/go/ssa"
)

func runLemmas(L *Loaded, U *Universe, specs *SpecSet, prop string, tmo int, seed int, all bool) ([]*Obligation, map[string]bool, []string) {
	var out []*Obligation
	trusted := map[string]bool{}
	var errs []string
	var jobs []job
	for _, lm := range specs.lemmas {
		if !hasProp(lm.props, prop) {
			continue
		}
		sp := L.spkgs[lm.pkg]
		if sp == nil {
			errs = append(errs, fmt.Sprintf("lemma %s: package %s not loaded", lm.name, lm.pkg))
			continue
		}
		// a context without a function: use any function of the package for scope
		var anyFn *ssa.Function
		for _, m := range sp.Members {
			if f, ok := m.(*ssa.Function); ok && len(f.Blocks) > 0 {
				anyFn = f
				break
			}
		}
		if anyFn == nil {
			continue
		}
		c := newFnCtx(L, U, anyFn, nil, specs)
		c.entry = &State{pc: "true", heaps: map[string]Term{}, flags: map[int]Term{}, nextRef: "1"}
		c.names = map[string][]ssa.Value{}
		env := &evalEnv{vars: nil, st: c.entry, old: c.entry, pkg: sp.Pkg}
		// skolemise the leading universal quantifiers: the bound variables become
		// arbitrary WELL-TYPED values, and callee contracts are instantiated on ground terms
		body := lm.expr
		env.bound = map[string]*Val{}
		bad := false
		for {
			q, ok := body.(*eQuant)
			if !ok || !q.forall {
				break
			}
			for _, qv := range q.vars {
				var T types.Type
				if e := c.try(func() { T = c.resolveType(qv.typ, env.pkg) }); e != nil {
					errs = append(errs, fmt.Sprintf("lemma %s: %v", lm.name, e))
					bad = true
					break
				}
				env.bound[qv.name] = c.freshOf(c.entry, T, "sk."+qv.name)
			}
			body = q.body
		}
		if bad {
			continue
		}
		t, err := c.evalBool(body, env)
		if err != nil {
			errs = append(errs, fmt.Sprintf("lemma %s: %v", lm.name, err))
			continue
		}
		c.addAxioms(specs)
		o := &Obligation{Name: fmt.Sprintf("%s.lemma.%s", prop, lm.name), Kind: "lemma", Func: lm.pkg, Clause: lm.src, Hyp: "true", Goal: t, Props: lm.props}
		o.Script = c.script(o, nil)
		jobs = append(jobs, job{o: o, script: o.Script, tmo: tmo, all: all})
		out = append(out, o)
		for k := range c.trusted {
			trusted[k] = true
		}
		if len(c.unsup) > 0 {
			errs = append(errs, fmt.Sprintf("lemma %s: %s", lm.name, strings.Join(c.unsup, "; ")))
		}
	}
	dischargeAll(jobs, seed)
	return out, trusted, errs
}
