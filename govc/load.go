package main

// Loading /repo's current working tree into go/ssa (tags: verif).

import (
	"fmt"
	"go/ast"
	"go/types"
	"os"
	"sort"
	"strings"

	"golang.org/x/tools/go/packages"
	"golang.org/x/tools/go/ssa"
	"golang.org/x/tools/go/ssa/ssautil"
)

const repoMod = "github.com/awslabs/ar-go-tools"

var repoDir = "/repo"

type Loaded struct {
	pkgs  []*packages.Package
	prog  *ssa.Program
	spkgs map[string]*ssa.Package // by path
	tpkgs map[string]*types.Package
	all   map[string]*packages.Package
}

func loadRepo(patterns ...string) (*Loaded, error) {
	cfg := &packages.Config{
		Mode:       packages.LoadAllSyntax,
		Dir:        repoDir,
		BuildFlags: []string{"-tags=verif"},
		Env:        append(os.Environ(), "GOFLAGS=-mod=mod", "GOPROXY=off", "GOSUMDB=off", "GOTOOLCHAIN=local"),
	}
	pkgs, err := packages.Load(cfg, patterns...)
	if err != nil {
		return nil, err
	}
	var errs []string
	packages.Visit(pkgs, nil, func(p *packages.Package) {
		for _, e := range p.Errors {
			errs = append(errs, e.Error())
		}
	})
	if len(errs) > 0 {
		return nil, fmt.Errorf("load errors: %s", strings.Join(errs, "; "))
	}
	prog, _ := ssautil.AllPackages(pkgs, ssa.GlobalDebug)
	prog.Build()
	l := &Loaded{pkgs: pkgs, prog: prog, spkgs: map[string]*ssa.Package{}, tpkgs: map[string]*types.Package{}, all: map[string]*packages.Package{}}
	packages.Visit(pkgs, nil, func(p *packages.Package) {
		l.all[p.PkgPath] = p
		l.tpkgs[p.PkgPath] = p.Types
		if sp := prog.Package(p.Types); sp != nil {
			l.spkgs[p.PkgPath] = sp
		}
	})
	return l, nil
}

// findFunc resolves "Name", "Type.Method" in the ssa package.
func (l *Loaded) findFunc(pkgPath, name string) *ssa.Function {
	sp := l.spkgs[pkgPath]
	if sp == nil {
		return nil
	}
	name = strings.NewReplacer("(", "", ")", "", "*", "").Replace(name)
	if i := strings.Index(name, "."); i >= 0 {
		tn, mn := name[:i], name[i+1:]
		obj := sp.Pkg.Scope().Lookup(tn)
		if obj == nil {
			return nil
		}
		T := obj.Type()
		for _, recv := range []types.Type{T, types.NewPointer(T)} {
			ms := l.prog.MethodSets.MethodSet(recv)
			for i := 0; i < ms.Len(); i++ {
				if ms.At(i).Obj().Name() == mn {
					f := l.prog.MethodValue(ms.At(i))
					if f != nil && f.Synthetic == "" {
						return f
					}
				}
			}
		}
		// generic named type: look through declared methods
		if n, ok := T.(*types.Named); ok {
			for i := 0; i < n.NumMethods(); i++ {
				if n.Method(i).Name() == mn {
					return l.prog.FuncValue(n.Method(i))
				}
			}
		}
		return nil
	}
	return sp.Func(name)
}

// isIfaceMethod: name is Type.Method where Type is an interface type of the package declaring Method.
func (l *Loaded) isIfaceMethod(pkgPath, name string) bool {
	sp := l.spkgs[pkgPath]
	i := strings.Index(name, ".")
	if sp == nil || i < 0 {
		return false
	}
	obj := sp.Pkg.Scope().Lookup(name[:i])
	if obj == nil {
		return false
	}
	it, ok := obj.Type().Underlying().(*types.Interface)
	if !ok {
		return false
	}
	for k := 0; k < it.NumMethods(); k++ {
		if it.Method(k).Name() == name[i+1:] {
			return true
		}
	}
	return false
}

// contractFiles returns the comment-only contract files of a package
// (*_contracts_verif.go) with their //@ lines.
func (l *Loaded) contractLines(pkgPath string) (lines []specLine) {
	p := l.all[pkgPath]
	if p == nil {
		return nil
	}
	var files []*ast.File
	for i, f := range p.Syntax {
		if strings.HasSuffix(p.CompiledGoFiles[i], "_contracts_verif.go") {
			files = append(files, f)
		}
	}
	sort.Slice(files, func(i, j int) bool {
		return p.Fset.Position(files[i].Pos()).Filename < p.Fset.Position(files[j].Pos()).Filename
	})
	for _, f := range files {
		for _, cg := range f.Comments {
			for _, c := range cg.List {
				txt := c.Text
				if strings.HasPrefix(txt, "//@") {
					pos := p.Fset.Position(c.Pos())
					lines = append(lines, specLine{text: strings.TrimRight(txt[3:], " \t"), file: pos.Filename, line: pos.Line})
				}
			}
		}
	}
	return lines
}

type specLine struct {
	text string
	file string
	line int
}
