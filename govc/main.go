package main

import (
	"flag"
	"fmt"
	"go/types"
	"os"
	"path/filepath"
	"runtime/pprof"
	"sort"
	"strconv"
	"strings"
	"time"
)

func implementsType(T types.Type, I *types.Named) bool {
	iface, ok := I.Underlying().(*types.Interface)
	if !ok {
		return false
	}
	return types.Implements(T, iface)
}

func usage() {
	fmt.Fprintln(os.Stderr, `usage:
  govc check <Cnn> [--tier quick|thorough] [--only substr] [--write-baseline]
  govc dump <pkgdir> <func>...
  govc slots`)
	os.Exit(2)
}

func main() {
	if v := os.Getenv("GOVC_ALTPAT"); v != "" {
		fmt.Sscan(v, &altPatternRounds)
	}
	if len(os.Args) < 2 {
		usage()
	}
	if d := os.Getenv("VERIF_DIR"); d != "" {
		verifDir = d
		workDir = filepath.Join(d, "work")
	}
	if d := os.Getenv("VERIF_REPO"); d != "" {
		repoDir = d
	}
	switch os.Args[1] {
	case "check":
		os.Exit(cmdCheck(os.Args[2:]))
	case "dump":
		cmdDump(os.Args[2:])
	case "slots":
		cmdSlots()
	default:
		usage()
	}
}

func cmdSlots() {
	L, err := loadRepo("./analysis/lang")
	if err != nil {
		fmt.Println(err)
		os.Exit(2)
	}
	sl, err := extractSlots(L)
	if err != nil {
		fmt.Println(err)
		os.Exit(2)
	}
	var ks []string
	for k := range sl {
		ks = append(ks, k)
	}
	sort.Strings(ks)
	for _, k := range ks {
		var ps []string
		for _, s := range sl[k] {
			ps = append(ps, s.Path)
		}
		fmt.Printf("%-22s %s\n", k, strings.Join(ps, " "))
	}
}

func cmdDump(args []string) {
	L, err := loadRepo(args[0])
	if err != nil {
		fmt.Println(err)
		os.Exit(2)
	}
	for _, p := range L.pkgs {
		for _, n := range args[1:] {
			if f := L.findFunc(p.PkgPath, n); f != nil {
				if os.Getenv("GOVC_LOOPS") != "" {
					c := newFnCtx(L, newUniverse(L), f, nil, nil)
					c.analyzeLoops()
					for _, li := range c.loopOrd {
						pos := ""
						for _, ins := range li.header.Instrs {
							if ins.Pos().IsValid() {
								pos = L.prog.Fset.Position(ins.Pos()).String()
								break
							}
						}
						if pos == "" {
							for b := range li.blocks {
								for _, ins := range b.Instrs {
									if ins.Pos().IsValid() && pos == "" {
										pos = L.prog.Fset.Position(ins.Pos()).String()
									}
								}
							}
						}
						fmt.Printf("loop %d header b%d (%s) rangeindex=%v near %s\n", li.ordinal, li.header.Index, li.header.Comment, li.rangeIx != nil, pos)
					}
					continue
				}
				f.WriteTo(os.Stdout)
				for _, af := range f.AnonFuncs {
					af.WriteTo(os.Stdout)
				}
			}
		}
	}
}

func cmdCheck(args []string) int {
	fs := flag.NewFlagSet("check", flag.ExitOnError)
	tier := fs.String("tier", "", "quick|thorough")
	only := fs.String("only", "", "restrict to functions whose name contains this")
	wb := fs.Bool("write-baseline", false, "record the discharged obligations as the committed baseline")
	verbose := fs.Bool("v", false, "print every obligation")
	if len(args) < 1 {
		usage()
	}
	prop := args[0]
	fs.Parse(args[1:])
	if *tier == "" {
		*tier = os.Getenv("VERIF_TIER")
	}
	if *tier == "" {
		*tier = "quick"
	}
	seed, _ := strconv.Atoi(os.Getenv("VERIF_SEED"))
	start := time.Now()
	if pf := os.Getenv("GOVC_PROFILE"); pf != "" {
		f, _ := os.Create(pf)
		pprof.StartCPUProfile(f)
		defer pprof.StopCPUProfile()
	}
	res, err := runProperty(prop, *tier, seed, *only)
	if err != nil {
		fmt.Fprintf(os.Stderr, "govc: %v\n", err)
		return 2
	}
	return judge(prop, *tier, seed, res, start, *wb, *verbose, *only != "")
}

func ok(o *Obligation) bool {
	return (o.Cover && o.Verdict == "sat") || (!o.Cover && o.Verdict == "unsat")
}

func refuted(o *Obligation) bool {
	return (o.Cover && o.Verdict == "unsat") || (!o.Cover && o.Verdict == "sat")
}

func judge(prop, tier string, seed int, res *runResult, start time.Time, writeBaseline, verbose, partial bool) int {
	known := loadKnown()
	bl := loadBaseline(prop)
	inBase := map[string]bool{}
	if bl != nil {
		for _, n := range bl.Obligations {
			inBase[n] = true
		}
	}
	knownBy := map[string]*KnownFinding{}
	for i := range known.Findings {
		k := &known.Findings[i]
		// a finding is identified by its obligation name; a contract shared by two
		// properties (e.g. Resolve: C14 and C13) reports it under either
		knownBy[k.Obligation] = k
	}
	for _, e := range res.errs {
		fmt.Printf("CONTRACT-ERROR: %s\n", e)
	}
	// retry undecided baseline obligations with every solver at a longer timeout
	var retry []job
	for _, o := range res.obls {
		if !ok(o) && !refuted(o) && inBase[baseName(o.Name)] && o.Script != "" {
			retry = append(retry, job{o: o, script: o.Script, tmo: 60, all: true})
		}
	}
	dischargeAll(retry, seed)

	var claimed, discharged int
	var violations []*Obligation
	var undecided []map[string]any
	var knownHit []map[string]any
	seenKnown := map[string]bool{}
	perSolver := map[string]int{}
	solverSecs := 0.0
	var samples []map[string]any
	dischargedNames := map[string]bool{}
	failedNames := map[string]bool{}
	unboundSeen := map[string]bool{}
	for _, o := range res.obls {
		bn := baseName(o.Name)
		for _, r := range o.Results {
			solverSecs += r.Secs
		}
		if kf, isKnown := knownBy[bn]; isKnown {
			o.Known = kf
			if !seenKnown[bn] {
				seenKnown[bn] = true
			}
			status := "still-failing"
			if ok(o) {
				status = "discharged-on-this-tree"
			}
			knownHit = append(knownHit, map[string]any{"obligation": o.Name, "verdict": o.Verdict, "status": status, "what": kf.What})
			if verbose {
				fmt.Printf("  known    %-8s %s\n", o.Verdict, o.Name)
			}
			continue
		}
		if o.Vacuous {
			failedNames[bn] = true
			undecided = append(undecided, map[string]any{"obligation": o.Name, "verdict": o.Verdict, "kind": o.Kind, "clause": o.Clause, "reason": "vacuous: the hypothesis of the clause can never hold"})
			continue
		}
		if ok(o) {
			claimed++
			discharged++
			dischargedNames[bn] = true
			for _, r := range o.Results {
				if r.Verdict == "unsat" || (o.Cover && r.Verdict == "sat") {
					perSolver[r.Solver]++
					break
				}
			}
			if len(samples) < 12 {
				samples = append(samples, obligationSample(o))
			}
			if verbose {
				fmt.Printf("  ok       %-8s %s\n", o.Verdict, o.Name)
			}
			continue
		}
		failedNames[bn] = true
		if o.BindErr != "" && !refuted(o) {
			// the contract of this function does not bind to the code any more: what it
			// merely fails to PROVE is not evidence against the code (an obligation the
			// solver REFUTES with a model is still reported: a returning defect usually
			// restructures the function, and must not hide behind its own contract)
			if !unboundSeen[o.Func] {
				unboundSeen[o.Func] = true
				fmt.Printf("CONTRACT-ERROR: %s: %s -- the contract has to follow the code; obligations of this function that no longer discharge are UNDECIDED, not violations\n", o.Func, o.BindErr)
			}
			undecided = append(undecided, map[string]any{"obligation": o.Name, "verdict": o.Verdict, "kind": o.Kind, "clause": o.Clause, "reason": "contract does not bind: " + o.BindErr})
			continue
		}
		if refuted(o) || inBase[bn] {
			claimed++
			violations = append(violations, o)
			if verbose {
				fmt.Printf("  FAIL     %-8s %s\n", o.Verdict, o.Name)
			}
			continue
		}
		undecided = append(undecided, map[string]any{"obligation": o.Name, "verdict": o.Verdict, "kind": o.Kind, "clause": o.Clause})
		if verbose {
			fmt.Printf("  undecided %-7s %s\n", o.Verdict, o.Name)
		}
	}
	// baseline obligations that vanished
	var missing []string
	if bl != nil && !partial {
		present := map[string]bool{}
		for _, o := range res.obls {
			present[baseName(o.Name)] = true
		}
		for _, n := range bl.Obligations {
			if !present[n] {
				missing = append(missing, n)
			}
		}
	}
	// an obligation name may occur at several return sites; a name counts as
	// discharged for the baseline only if every site discharged
	if writeBaseline {
		var names []string
		for n := range dischargedNames {
			if !failedNames[n] {
				names = append(names, n)
			}
		}
		sort.Strings(names)
		writeJSON(filepath.Join(verifDir, "baseline", prop+".json"), &Baseline{Property: prop, Obligations: names})
		fmt.Printf("baseline written: %d obligation names\n", len(names))
	}

	// report
	exit := 0
	for _, kf := range known.Findings {
		if seenKnown[kf.Obligation] {
			fmt.Printf("KNOWN-FINDING: property=%s %s [%s]\n", prop, kf.What, kf.Obligation)
		}
	}
	os.MkdirAll(filepath.Join(verifDir, "replays"), 0o755)
	// group violations by base name: one VIOLATION line per obligation name
	seenV := map[string]bool{}
	for _, o := range violations {
		bn := baseName(o.Name)
		if seenV[bn] {
			continue
		}
		seenV[bn] = true
		path, replayed := writeReplay(prop, o, res)
		suffix := ""
		if !replayed {
			suffix = " obligation=" + bn + " no-failing-input-found"
		} else {
			suffix = " obligation=" + bn
		}
		fmt.Printf("VIOLATION property=%s replay=%s%s\n", prop, path, suffix)
		exit = 1
	}
	for _, m := range missing {
		fmt.Printf("NOTE: baseline obligation %s was not generated on this tree (contract no longer binds or clause removed)\n", m)
	}
	var funcs []any
	unbound := 0
	for _, f := range res.funcs {
		funcs = append(funcs, f)
		if !f.Bound {
			unbound++
			fmt.Printf("NOTE: contract for %s.%s does not bind to any function of /repo\n", f.Package, f.Func)
		}
		for _, u := range f.Unsupported {
			fmt.Printf("NOTE: %s: %s\n", f.Func, u)
		}
	}
	var trusted []string
	for k := range res.trusted {
		trusted = append(trusted, k)
	}
	trusted = append(trusted,
		"go/types and golang.org/x/tools/go/ssa v0.24.0 build the SSA that is verified (SSA construction trusted)",
		"govc VC generator (guarded by the must-fail mutant corpus and cover obligations, not itself verified)",
		"SMT solvers z3 5.1.0 / z3 4.8.12 / cvc5 1.0.3",
		"heaps of go/ssa, go/types, go/token objects are not modified by callees (stable-heap assumption)",
		"sequential execution: no other goroutine modifies the state of a function under contract",
		"panics/recover control flow not modelled; termination only where a decreases clause is discharged")
	sort.Strings(trusted)
	ev := &Evidence{PropertyID: prop, Tier: tier, Seed: seed, Level: "proof", WallS: time.Since(start).Seconds(), Violations: len(seenV)}
	ev.Coverage = map[string]any{
		"obligations":       claimed,
		"discharged":        discharged,
		"checker_cmd":       fmt.Sprintf("bin/govc check %s --tier %s  (per obligation: z3-new -smt2 <file>; z3; cvc5)", prop, tier),
		"trusted_base":      trusted,
		"samples":           samples,
		"functions":         funcs,
		"per_backend":       perSolver,
		"solver_secs":       solverSecs,
		"undecided":         undecided,
		"known_findings":    knownHit,
		"baseline_missing":  missing,
		"type_tags":         res.tags,
		"contract_errors":   res.errs,
		"unbound_contracts": unbound,
		"integer_model":     "mathematical Int with Go wrap-around applied on every + - * and narrowing conversion (mod 2^n); functions marked `arith checked` prove absence of overflow instead",
		"explanation":       "each obligation is one SMT query (assumptions AND path condition AND NOT goal) generated from go/ssa of /repo's working tree; discharged = unsat by at least one solver and sat by none",
	}
	for k, v := range res.extra {
		ev.Coverage[k] = v
	}
	ev.Assumptions = trusted
	evDir := filepath.Join(verifDir, "evidence")
	if d := os.Getenv("GOVC_EVIDENCE_DIR"); d != "" {
		evDir = d // development aid: keep experiments on modified trees out of the committed evidence
		os.MkdirAll(d, 0o755)
	}
	if err := writeJSON(filepath.Join(evDir, prop+".json"), ev); err != nil {
		fmt.Fprintf(os.Stderr, "govc: cannot write evidence: %v\n", err)
		return 2
	}
	fmt.Printf("%s tier=%s obligations=%d discharged=%d undecided=%d known=%d violations=%d wall=%.1fs\n", prop, tier, claimed, discharged, len(undecided), len(knownHit), len(seenV), time.Since(start).Seconds())
	if claimed == 0 && len(knownHit) == 0 {
		fmt.Printf("NOTE: no obligation was generated for %s (vacuous run)\n", prop)
	}
	return exit
}

func obligationSample(o *Obligation) map[string]any {
	m := map[string]any{"obligation": o.Name, "kind": o.Kind, "function": o.Func, "clause": o.Clause, "verdict": o.Verdict}
	if len(o.Results) > 0 {
		m["solver"] = o.Results[len(o.Results)-1].Solver
		m["secs"] = o.Results[len(o.Results)-1].Secs
	}
	return m
}

// writeReplay stores the failed obligation, solver output and (if available)
// the result of replaying the counterexample against the real code.
func writeReplay(prop string, o *Obligation, res *runResult) (string, bool) {
	path := filepath.Join(verifDir, "replays", sym(baseName(o.Name))+".json")
	rep := map[string]any{
		"property":   prop,
		"obligation": o.Name,
		"function":   o.Func,
		"kind":       o.Kind,
		"clause":     o.Clause,
		"where":      o.Where,
		"verdict":    o.Verdict,
		"solvers":    o.Results,
		"smt_file":   o.File,
		"witness":    o.Witness,
	}
	replayed := false
	if r := tryReplay(prop, o, res); r != nil {
		rep["replay"] = r
		if b, _ := r["fails_on_real_code"].(bool); b {
			replayed = true
		}
	}
	writeJSON(path, rep)
	return path, replayed
}
