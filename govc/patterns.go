package main

// Trigger (pattern) inference for quantifiers written in contracts. Without
// explicit patterns z3 picks multi-patterns over array reads that explode.

import (
	"sort"
	"strings"
)

var altPatternRounds = 3

type sx struct {
	atom string
	kids []*sx
}

func parseSx(s string) *sx {
	pos := 0
	var rec func() *sx
	rec = func() *sx {
		for pos < len(s) && (s[pos] == ' ' || s[pos] == '\n') {
			pos++
		}
		if pos >= len(s) {
			return nil
		}
		if s[pos] == '(' {
			pos++
			n := &sx{}
			for {
				for pos < len(s) && (s[pos] == ' ' || s[pos] == '\n') {
					pos++
				}
				if pos >= len(s) {
					return n
				}
				if s[pos] == ')' {
					pos++
					return n
				}
				k := rec()
				if k == nil {
					return n
				}
				n.kids = append(n.kids, k)
			}
		}
		st := pos
		for pos < len(s) && s[pos] != ' ' && s[pos] != '(' && s[pos] != ')' && s[pos] != '\n' {
			pos++
		}
		return &sx{atom: s[st:pos]}
	}
	return rec()
}

func (n *sx) String() string {
	if n.kids == nil && n.atom != "" {
		return n.atom
	}
	var ps []string
	for _, k := range n.kids {
		ps = append(ps, k.String())
	}
	return "(" + strings.Join(ps, " ") + ")"
}

func (n *sx) head() string {
	if len(n.kids) > 0 && n.kids[0].kids == nil {
		return n.kids[0].atom
	}
	return ""
}

func (n *sx) vars(bound map[string]bool, out map[string]bool) {
	if n.kids == nil {
		if bound[n.atom] {
			out[n.atom] = true
		}
		return
	}
	for _, k := range n.kids {
		k.vars(bound, out)
	}
}

var interpretedHeads = map[string]bool{"and": true, "or": true, "not": true, "=>": true, "=": true, "ite": true, "<": true, "<=": true, ">": true, ">=": true,
	"+": true, "-": true, "*": true, "div": true, "mod": true, "abs": true, "forall": true, "exists": true, "!": true, "distinct": true, "store": true, "let": true}

// legalPattern: no logical connectives / comparisons / nested quantifiers inside.
func legalPattern(n *sx) bool {
	if n.kids == nil {
		return true
	}
	h := n.head()
	switch h {
	case "and", "or", "not", "=>", "=", "ite", "<", "<=", ">", ">=", "forall", "exists", "!", "distinct", "let", "store":
		return false
	}
	for _, k := range n.kids {
		if !legalPattern(k) {
			return false
		}
	}
	return true
}

// inferPatterns returns a :pattern annotation text ("" when none could be found).
func inferPatterns(body string, binders []string) string {
	bound := map[string]bool{}
	for _, b := range binders {
		f := strings.Fields(strings.Trim(b, "()"))
		if len(f) > 0 {
			bound[f[0]] = true
		}
	}
	root := parseSx(body)
	if root == nil {
		return ""
	}
	type cand struct {
		text string
		vs   map[string]bool
		fn   bool
		size int
	}
	var cands []cand
	seen := map[string]bool{}
	var walk func(n *sx, underQuant bool)
	walk = func(n *sx, underQuant bool) {
		if n.kids == nil {
			return
		}
		h := n.head()
		if h == "forall" || h == "exists" {
			// do not take patterns from nested quantifier bodies (their own binders)
			return
		}
		isFn := strings.HasPrefix(h, "fn.") || strings.HasPrefix(h, "ghost.") || strings.HasPrefix(h, "at.") || strings.HasPrefix(h, "sub.") || strings.HasPrefix(h, "box.") || strings.HasPrefix(h, "unbox.")
		isSel := h == "select" || h == "s_arr" || h == "itag" || h == "ival" || h == "str_len" || strings.HasPrefix(h, "S.") || strings.HasPrefix(h, "maplen.")
		if (isFn || isSel) && legalPattern(n) {
			vs := map[string]bool{}
			n.vars(bound, vs)
			if len(vs) > 0 {
				t := n.String()
				if !seen[t] {
					seen[t] = true
					cands = append(cands, cand{t, vs, isFn, len(t)})
				}
				if isFn || isSel {
					// maximal terms only: do not descend (sub-terms make weaker, loop-prone triggers)
					return
				}
			}
		}
		for _, k := range n.kids {
			walk(k, underQuant)
		}
	}
	walk(root, false)
	if len(cands) == 0 {
		return ""
	}
	all := len(bound)
	var full []cand
	for _, c := range cands {
		if len(c.vs) == all {
			full = append(full, c)
		}
	}
	pick := func(cs []cand) []cand {
		var fns []cand
		for _, c := range cs {
			if c.fn {
				fns = append(fns, c)
			}
		}
		if len(fns) > 0 {
			return fns
		}
		return cs
	}
	if len(full) > 0 {
		full = pick(full)
		sort.Slice(full, func(i, j int) bool { return full[i].size < full[j].size })
		if len(full) > 4 {
			full = full[:4]
		}
		var ps []string
		for _, c := range full {
			ps = append(ps, ":pattern ("+c.text+")")
		}
		return strings.Join(ps, " ")
	}
	// multi-pattern: greedily cover all variables
	cs := pick(cands)
	if len(cs) == 0 {
		cs = cands
	}
	sort.Slice(cs, func(i, j int) bool {
		if len(cs[i].vs) != len(cs[j].vs) {
			return len(cs[i].vs) > len(cs[j].vs)
		}
		return cs[i].size < cs[j].size
	})
	// several alternative multi-patterns over disjoint candidate sets: a single
	// choice is brittle (the chosen term may only occur on an older heap version)
	used := map[string]bool{}
	var pats []string
	for round := 0; round < altPatternRounds; round++ {
		covered := map[string]bool{}
		var chosen []string
		for _, c := range append(append([]cand{}, cs...), cands...) {
			if used[c.text] {
				continue
			}
			adds := false
			for v := range c.vs {
				if !covered[v] {
					adds = true
				}
			}
			if !adds {
				continue
			}
			for v := range c.vs {
				covered[v] = true
			}
			chosen = append(chosen, c.text)
			if len(covered) == all {
				break
			}
		}
		if len(covered) != all {
			break
		}
		for _, t := range chosen {
			used[t] = true
		}
		pats = append(pats, ":pattern ("+strings.Join(chosen, " ")+")")
	}
	return strings.Join(pats, " ")
}
