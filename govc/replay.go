package main

// Replay of refuted obligations against the real code.
//
// Form A (one obligation = instruction kind + operand slot): the witness corpus
// /verif/replay/corpus is loaded into SSA by a test that is injected into the
// real package with `go test -overlay` (nothing is written into /repo); the real
// function is called on a corpus instruction of that kind whose operand slot holds
// a value used nowhere else, and must behave as the contract says.
//
// Form B (functional contracts over scalars): a template per function
// (/verif/replay/formb/<pkg>.<Func>.go.tmpl) names the contract expressions whose
// model values it needs (`//govc:query name expr`); they are evaluated in the
// function's entry state, read from the solver's model of the failed obligation
// with (get-value), substituted into the template, and the real function is run on
// that input; the template states the postcondition natively.

import (
	"bytes"
	"context"
	"encoding/json"
	"fmt"
	"os"
	"os/exec"
	"path/filepath"
	"regexp"
	"strings"
	"time"
)

var replayDir = filepath.Join(verifDir, "replay")

type formATarget struct {
	marker string // substring of the obligation base name
	label  string // clause label preceding Kind.Slot ("" = kind only)
	fn     string
	pkg    string // package dir relative to /repo
	tmpl   string
}

var formATargets = []formATarget{
	{".FnReadsFrom.", "reads", "FnReadsFrom", "analysis/lang", "lang_replay_test.go.tmpl"},
	{".FnWritesTo.", "writes", "FnWritesTo", "analysis/lang", "lang_replay_test.go.tmpl"},
	{".InstrSwitch.", "dispatch", "InstrSwitch", "analysis/lang", "lang_replay_test.go.tmpl"},
	{".preTraversalVisitValuesInstruction.", "visits", "preTraversalVisitValuesInstruction", "analysis/reachability", "reachability_replay_test.go.tmpl"},
}

// Each replay compiles and runs a test of a /repo package (10-60 s); a run that
// refutes dozens of obligations at once (a whole function reverted) replays the
// first few and marks the rest as not replayed.
var replayBudget = 4
var replayCache = map[string]map[string]any{}

func tryReplay(prop string, o *Obligation, res *runResult) map[string]any {
	if os.Getenv("GOVC_NOREPLAY") != "" {
		return nil
	}
	bn := baseName(o.Name)
	if replayBudget <= 0 {
		return map[string]any{"fails_on_real_code": false, "note": "not replayed: replay budget of this run used up by earlier violations"}
	}
	for _, t := range formATargets {
		if !strings.Contains(bn, t.marker) {
			continue
		}
		parts := strings.Split(bn, ".")
		li := -1
		for i, p := range parts {
			if p == t.label {
				li = i
			}
		}
		if li < 0 && t.fn == "InstrSwitch" && strings.HasSuffix(bn, ".nopanic") {
			// the panic obligation is not tied to one kind: try every instruction of the corpus
			return replayFormA(t, "*", "", bn)
		}
		if li < 0 || li+1 >= len(parts) {
			return nil
		}
		kind, slot := parts[li+1], ""
		if li+2 < len(parts) {
			slot = parts[li+2]
		}
		return replayFormA(t, kind, slot, bn)
	}
	return replayFormB(o, res)
}

func renderOverlay(tmplPath, destInRepo, name string, subst map[string]string) (ovPath string, err error) {
	b, err := os.ReadFile(tmplPath)
	if err != nil {
		return "", err
	}
	src := string(b)
	if strings.Contains(src, "//COMMON//") {
		cb, err := os.ReadFile(filepath.Join(replayDir, "forma", "common.go.txt"))
		if err != nil {
			return "", err
		}
		src = strings.Replace(src, "//COMMON//", string(cb), 1)
	}
	for k, v := range subst {
		src = strings.ReplaceAll(src, "{{"+k+"}}", v)
	}
	dir := filepath.Join(workDir, "replay")
	os.MkdirAll(dir, 0o755)
	testFile := filepath.Join(dir, sym(name)+"_test.go")
	if err := os.WriteFile(testFile, []byte(src), 0o644); err != nil {
		return "", err
	}
	ov := map[string]any{"Replace": map[string]string{filepath.Join(repoDir, destInRepo, "zz_govc_replay_test.go"): testFile}}
	ovPath = filepath.Join(dir, sym(name)+".overlay.json")
	jb, _ := json.Marshal(ov)
	return ovPath, os.WriteFile(ovPath, jb, 0o644)
}

func runReplayTest(ovPath, pkg string, env []string) (string, error) {
	ctx, cancel := context.WithTimeout(context.Background(), 240*time.Second)
	defer cancel()
	cmd := exec.CommandContext(ctx, "go", "test", "-v", "-overlay", ovPath, "-vet=off", "-count=1", "-timeout", "180s", "-run", "TestGovcReplay", "./"+pkg+"/")
	cmd.Dir = repoDir
	cmd.Env = append(os.Environ(), "GOFLAGS=-mod=mod", "GOPROXY=off", "GOSUMDB=off", "GOTOOLCHAIN=local")
	cmd.Env = append(cmd.Env, env...)
	var out bytes.Buffer
	cmd.Stdout = &out
	cmd.Stderr = &out
	err := cmd.Run()
	return out.String(), err
}

func replayLines(out string) (lines []string, fails string, holds bool, errLine string) {
	for _, l := range strings.Split(out, "\n") {
		l = strings.TrimSpace(l)
		if i := strings.Index(l, "REPLAY-"); i >= 0 {
			l = l[i:]
			lines = append(lines, l)
			switch {
			case strings.HasPrefix(l, "REPLAY-FAILS"):
				fails = strings.TrimSpace(strings.TrimPrefix(l, "REPLAY-FAILS"))
			case strings.HasPrefix(l, "REPLAY-HOLDS"):
				holds = true
			case strings.HasPrefix(l, "REPLAY-ERROR"):
				errLine = l
			}
		}
	}
	if len(lines) > 40 {
		lines = append(lines[:20], lines[len(lines)-20:]...)
	}
	return
}

func replayFormA(t formATarget, kind, slot, name string) map[string]any {
	key := t.fn + "|" + kind + "|" + slot
	if r, ok := replayCache[key]; ok {
		return r
	}
	replayBudget--
	r := replayFormA1(t, kind, slot, name)
	replayCache[key] = r
	return r
}

func replayFormA1(t formATarget, kind, slot, name string) map[string]any {
	ov, err := renderOverlay(filepath.Join(replayDir, "forma", t.tmpl), t.pkg, name, nil)
	if err != nil {
		return map[string]any{"form": "A", "error": err.Error(), "fails_on_real_code": false}
	}
	env := []string{"GOVC_REPLAY_FUNC=" + t.fn, "GOVC_REPLAY_KIND=" + kind, "GOVC_REPLAY_SLOT=" + slot}
	out, _ := runReplayTest(ov, t.pkg, env)
	lines, fails, holds, errLine := replayLines(out)
	r := map[string]any{
		"form":               "A (witness corpus /verif/replay/corpus run through the real function)",
		"target":             t.fn,
		"kind":               kind,
		"slot":               slot,
		"command":            fmt.Sprintf("cd /repo && %s go test -v -overlay %s -vet=off -count=1 -run TestGovcReplay ./%s/", strings.Join(env, " "), ov, t.pkg),
		"output":             lines,
		"fails_on_real_code": fails != "",
	}
	if fails != "" {
		r["failing_input"] = fails
	} else if holds {
		r["note"] = "the real function behaves as the contract says on every corpus witness of this kind/slot: the refutation does not replay (the corpus may lack the distinguishing shape)"
	} else if errLine != "" || len(lines) == 0 {
		r["note"] = "replay harness could not run: " + errLine + firstLines(out, 6)
	}
	return r
}

func firstLines(s string, n int) string {
	ls := strings.Split(s, "\n")
	if len(ls) > n {
		ls = ls[:n]
	}
	return " | " + strings.Join(ls, " | ")
}

// ---------------------------------------------------------------------------

var queryRe = regexp.MustCompile(`(?m)^//govc:query\s+(\w+)\s+(.+)$`)
var pkgDirRe = regexp.MustCompile(`(?m)^//govc:package\s+(\S+)$`)

func replayFormB(o *Obligation, res *runResult) map[string]any {
	c := res.ctxs[o]
	if c == nil || c.fn == nil || c.fn.Pkg == nil {
		return nil
	}
	short := c.fn.Pkg.Pkg.Name() + "." + strings.NewReplacer("(", "", ")", "", "*", "").Replace(c.fn.RelString(c.fn.Pkg.Pkg))
	tmplPath := filepath.Join(replayDir, "formb", short+".go.tmpl")
	tb, err := os.ReadFile(tmplPath)
	if err != nil {
		return nil // no harness for this function
	}
	r := map[string]any{"form": "B (solver model run through the real function)", "template": tmplPath, "fails_on_real_code": false}
	hasSat := false
	for _, sr := range o.Results {
		if sr.Verdict == "sat" && !strings.Contains(sr.Solver, "ematch") {
			hasSat = true
		}
	}
	if !hasSat {
		r["note"] = "no solver produced a model for this obligation (verdict " + o.Verdict + ")"
		return r
	}
	env := c.ss().env
	if env == nil {
		r["note"] = "no entry environment"
		return r
	}
	qs := queryRe.FindAllStringSubmatch(string(tb), -1)
	var names, terms []string
	for _, q := range qs {
		e, err := parseSpecExpr(strings.TrimSpace(q[2]))
		if err != nil {
			r["note"] = "query " + q[1] + ": " + err.Error()
			return r
		}
		v, err := c.evalSpec(e, env)
		if err != nil {
			r["note"] = "query " + q[1] + ": " + err.Error()
			return r
		}
		names = append(names, q[1])
		terms = append(terms, v.S)
	}
	script := c.script(o, nil)
	if i := strings.LastIndex(script, "(check-sat)"); i >= 0 {
		script = script[:i]
	}
	script += "(check-sat)\n"
	for _, t := range terms {
		script += "(get-value (" + t + "))\n"
	}
	dir := filepath.Join(workDir, "replay")
	os.MkdirAll(dir, 0o755)
	f := filepath.Join(dir, sym(baseName(o.Name))+".model.smt2")
	os.WriteFile(f, []byte(script), 0o644)
	ctx, cancel := context.WithTimeout(context.Background(), 60*time.Second)
	defer cancel()
	outB, _ := exec.CommandContext(ctx, "z3-new", "-T:50", "-smt2", f).CombinedOutput()
	outLines := strings.Split(strings.TrimSpace(string(outB)), "\n")
	if len(outLines) == 0 || strings.TrimSpace(outLines[0]) != "sat" {
		r["note"] = "model query did not return sat: " + firstLines(string(outB), 3)
		return r
	}
	vals := parseGetValues(strings.Join(outLines[1:], "\n"), len(terms))
	if len(vals) != len(terms) {
		r["note"] = "could not parse model values: " + firstLines(string(outB), 6)
		return r
	}
	subst := map[string]string{}
	model := map[string]string{}
	for i, n := range names {
		subst[n] = vals[i]
		model[n] = vals[i]
	}
	r["model"] = model
	pkg := strings.TrimPrefix(c.fn.Pkg.Pkg.Path(), repoMod+"/")
	if m := pkgDirRe.FindStringSubmatch(string(tb)); m != nil {
		pkg = m[1]
	}
	ov, err := renderOverlay(tmplPath, pkg, baseName(o.Name), subst)
	if err != nil {
		r["note"] = err.Error()
		return r
	}
	replayBudget--
	out, _ := runReplayTest(ov, pkg, nil)
	lines, fails, holds, errLine := replayLines(out)
	r["command"] = fmt.Sprintf("cd /repo && go test -v -overlay %s -vet=off -count=1 -run TestGovcReplay ./%s/", ov, pkg)
	r["output"] = lines
	if fails != "" {
		r["fails_on_real_code"] = true
		r["failing_input"] = fails
	} else if holds {
		r["note"] = "the real function satisfies the postcondition on the model's input: the refutation does not replay"
	} else {
		r["note"] = "replay harness could not run: " + errLine + firstLines(out, 6)
	}
	return r
}

// parseGetValues reads n answers of the form ((term value)) and returns the values
// as Go literals (integers and booleans only).
func parseGetValues(s string, n int) []string {
	var out []string
	depth, start := 0, -1
	for i, ch := range s {
		switch ch {
		case '(':
			if depth == 0 {
				start = i
			}
			depth++
		case ')':
			depth--
			if depth == 0 && start >= 0 {
				ans := s[start : i+1]
				out = append(out, valueOfAnswer(ans))
				start = -1
			}
		}
	}
	if len(out) > n {
		out = out[:n]
	}
	return out
}

// valueOfAnswer: "((<term> <value>))" -> Go literal of <value>.
func valueOfAnswer(ans string) string {
	sx := parseSx(ans)
	if sx == nil || len(sx.kids) != 1 || len(sx.kids[0].kids) != 2 {
		return "0"
	}
	v := sx.kids[0].kids[1]
	if v.kids == nil {
		return v.atom
	}
	// (- 5)
	if len(v.kids) == 2 && v.kids[0].atom == "-" && v.kids[1].kids == nil {
		return "-" + v.kids[1].atom
	}
	return v.String()
}
