package main

// Replay of refuted obligations against the real code (filled in per family).

func tryReplay(prop string, o *Obligation, res *runResult) map[string]any {
	return nil
}
