package main

// Operand slots of every ssa.Instruction kind, extracted mechanically from the
// Operands methods of the pinned go/ssa source, and expansion of slots/kinds
// clauses into one ensures clause per (kind, slot).

import (
	"fmt"
	"go/ast"
	"go/types"
	"sort"
	"strings"
)

type slot struct {
	Kind     string // e.g. "Call"
	Path     string // e.g. "Call.Args[*]", "X", "States[*].Chan"
	Variadic bool
}

func (s slot) name() string {
	return s.Kind + "." + strings.NewReplacer("[*]", "", ".", "_").Replace(s.Path)
}

const ssaPath = "golang.org/x/tools/go/ssa"

// extractSlots parses func (v *K) Operands(rands []*Value) []*Value bodies.
func extractSlots(L *Loaded) (map[string][]slot, error) {
	p := L.all[ssaPath]
	if p == nil {
		return nil, fmt.Errorf("go/ssa not loaded")
	}
	out := map[string][]slot{}
	bodies := map[string]*ast.FuncDecl{}
	for _, f := range p.Syntax {
		for _, d := range f.Decls {
			fd, ok := d.(*ast.FuncDecl)
			if !ok || fd.Name.Name != "Operands" || fd.Recv == nil || len(fd.Recv.List) != 1 {
				continue
			}
			rt := fd.Recv.List[0].Type
			if st, ok := rt.(*ast.StarExpr); ok {
				rt = st.X
			}
			id, ok := rt.(*ast.Ident)
			if !ok {
				continue
			}
			bodies[id.Name] = fd
		}
	}
	var extract func(kind string, prefix string, depth int) ([]slot, error)
	extract = func(kind string, prefix string, depth int) ([]slot, error) {
		fd := bodies[kind]
		if fd == nil {
			return nil, fmt.Errorf("no Operands method for %s", kind)
		}
		recv := ""
		if len(fd.Recv.List[0].Names) > 0 {
			recv = fd.Recv.List[0].Names[0].Name
		}
		var slots []slot
		// field path of an expression &recv.A.B or &recv.F[i].G
		var pathOf func(e ast.Expr, loopVar, loopField string) (string, bool, bool)
		pathOf = func(e ast.Expr, loopVar, loopField string) (string, bool, bool) {
			switch x := e.(type) {
			case *ast.Ident:
				if x.Name == recv {
					return "", false, true
				}
			case *ast.SelectorExpr:
				b, v, ok := pathOf(x.X, loopVar, loopField)
				if !ok {
					return "", false, false
				}
				if b == "" {
					return x.Sel.Name, v, true
				}
				return b + "." + x.Sel.Name, v, true
			case *ast.IndexExpr:
				b, _, ok := pathOf(x.X, loopVar, loopField)
				if id, isId := x.Index.(*ast.Ident); ok && isId && id.Name == loopVar && b == loopField {
					return b + "[*]", true, true
				}
			}
			return "", false, false
		}
		handleAppendArgs := func(args []ast.Expr, loopVar, loopField string) error {
			for _, a := range args {
				u, ok := a.(*ast.UnaryExpr)
				if !ok || u.Op.String() != "&" {
					return fmt.Errorf("%s.Operands: unexpected append argument", kind)
				}
				pth, variadic, ok := pathOf(u.X, loopVar, loopField)
				if !ok {
					return fmt.Errorf("%s.Operands: unexpected operand expression", kind)
				}
				slots = append(slots, slot{Path: prefix + pth, Variadic: variadic})
			}
			return nil
		}
		// delegation: return s.Call.Operands(rands) / append(s.Call.Operands(rands), &s.X)
		var handleExpr func(e ast.Expr, loopVar, loopField string) error
		handleExpr = func(e ast.Expr, loopVar, loopField string) error {
			switch x := e.(type) {
			case *ast.Ident:
				if x.Name == "rands" {
					return nil
				}
			case *ast.CallExpr:
				if id, ok := x.Fun.(*ast.Ident); ok && id.Name == "append" {
					if err := handleExpr(x.Args[0], loopVar, loopField); err != nil {
						return err
					}
					return handleAppendArgs(x.Args[1:], loopVar, loopField)
				}
				if sel, ok := x.Fun.(*ast.SelectorExpr); ok && sel.Sel.Name == "Operands" {
					pth, _, ok := pathOf(sel.X, "", "")
					if !ok || depth > 2 {
						return fmt.Errorf("%s.Operands: unexpected delegation", kind)
					}
					// find the field's struct type name: only CallCommon is delegated to in go/ssa
					sub, err := extract("CallCommon", prefix+pth+".", depth+1)
					if err != nil {
						return err
					}
					slots = append(slots, sub...)
					return nil
				}
			}
			return fmt.Errorf("%s.Operands: unsupported expression shape", kind)
		}
		for _, st := range fd.Body.List {
			switch x := st.(type) {
			case *ast.ReturnStmt:
				if len(x.Results) != 1 {
					return nil, fmt.Errorf("%s.Operands: return shape", kind)
				}
				if err := handleExpr(x.Results[0], "", ""); err != nil {
					return nil, err
				}
			case *ast.AssignStmt:
				// rands = append(rands, &v.X, ...)
				if len(x.Rhs) != 1 {
					return nil, fmt.Errorf("%s.Operands: assignment shape", kind)
				}
				if err := handleExpr(x.Rhs[0], "", ""); err != nil {
					return nil, err
				}
			case *ast.RangeStmt:
				key, ok := x.Key.(*ast.Ident)
				if !ok || x.Value != nil {
					return nil, fmt.Errorf("%s.Operands: range shape", kind)
				}
				fieldPath, _, ok := pathOf(x.X, "", "")
				if !ok {
					return nil, fmt.Errorf("%s.Operands: range over non-field", kind)
				}
				for _, bs := range x.Body.List {
					as, ok := bs.(*ast.AssignStmt)
					if !ok || len(as.Rhs) != 1 {
						return nil, fmt.Errorf("%s.Operands: range body shape", kind)
					}
					if err := handleExpr(as.Rhs[0], key.Name, fieldPath); err != nil {
						return nil, err
					}
				}
			default:
				return nil, fmt.Errorf("%s.Operands: unsupported statement %T", kind, st)
			}
		}
		return slots, nil
	}
	for kind := range bodies {
		if kind == "CallCommon" {
			continue
		}
		sl, err := extract(kind, "", 0)
		if err != nil {
			return nil, err
		}
		for i := range sl {
			sl[i].Kind = kind
		}
		out[kind] = sl
	}
	return out, nil
}

func matchList(list []string, kind string, s *slot) bool {
	for _, e := range list {
		if e == kind {
			return true
		}
		if s != nil {
			p := strings.ReplaceAll(s.Path, "[*]", "")
			if e == kind+"."+p || e == "*."+p {
				return true
			}
		}
	}
	return false
}

var slotCache map[string][]slot

// expandSlots turns a slots/kinds clause into concrete ensures clauses.
func (c *FnCtx) expandSlots(sc *slotClause) ([]*clause, error) {
	te, err := parseTypeText(sc.world)
	if err != nil {
		return nil, err
	}
	var W types.Type
	if err := c.try(func() { W = c.resolveType(te, c.fn.Pkg.Pkg) }); err != nil {
		return nil, err
	}
	named, ok := types.Unalias(W).(*types.Named)
	if !ok {
		return nil, fmt.Errorf("world %s is not a named interface", sc.world)
	}
	world := c.u.world(named)
	if len(world) == 0 {
		return nil, fmt.Errorf("empty world for %s", sc.world)
	}
	pkgName := named.Obj().Pkg().Name()
	var out []*clause
	mk := func(kind string, typText string, s *slot) error {
		x := fmt.Sprintf("(%s).(%s)", sc.scrutinee, typText)
		body := sc.body
		hyp := fmt.Sprintf("istype(%s, %s)", sc.scrutinee, typText)
		quant := ""
		label := sc.label + "." + kind
		wit := kind
		if s != nil {
			pth := s.Path
			if s.Variadic {
				i := strings.Index(pth, "[*]")
				pre := pth[:i]
				hyp += fmt.Sprintf(" && 0 <= si && si < len(%s.%s)", x, pre)
				pth = strings.Replace(pth, "[*]", "[si]", 1)
				quant = "forall si int :: "
			}
			body = strings.ReplaceAll(body, "$slot", x+"."+pth)
			label = sc.label + "." + s.name()
			wit = s.name()
		}
		body = strings.ReplaceAll(body, "$x", x)
		body = strings.ReplaceAll(body, "$K", typText)
		body = strings.ReplaceAll(body, "$N", kind)
		src := fmt.Sprintf("%s(%s) ==> (%s)", quant, hyp, body)
		if sc.instance {
			// instance hypothesis: si becomes a ghost of the instance
			src = fmt.Sprintf("(%s) && (%s)", hyp, body)
		}
		e, err := parseSpecExpr(src)
		if err != nil {
			return err
		}
		out = append(out, &clause{label: label, src: src, expr: e, line: sc.line, witness: wit, variadic: quant != ""})
		return nil
	}
	if sc.mode == "slots" && structKey(named) != ssaPath+".Instruction" {
		return nil, fmt.Errorf("slots clauses are only defined for ssa.Instruction")
	}
	if sc.mode == "slots" && slotCache == nil {
		slotCache, err = extractSlots(c.L)
		if err != nil {
			return nil, err
		}
	}
	for _, w := range world {
		typText := ""
		t := w
		if p, ok := t.(*types.Pointer); ok {
			typText = "*"
			t = p.Elem()
		}
		kind := t.(*types.Named).Obj().Name()
		typText += pkgName + "." + kind
		if sc.mode == "kinds" {
			if matchList(sc.except, kind, nil) || (len(sc.only) > 0 && !matchList(sc.only, kind, nil)) {
				continue
			}
			if err := mk(kind, typText, nil); err != nil {
				return nil, err
			}
			continue
		}
		sl := append([]slot{}, slotCache[kind]...)
		sort.Slice(sl, func(i, j int) bool { return sl[i].Path < sl[j].Path })
		for i := range sl {
			s := sl[i]
			if matchList(sc.except, kind, &s) || (len(sc.only) > 0 && !matchList(sc.only, kind, &s)) {
				continue
			}
			if err := mk(kind, typText, &s); err != nil {
				return nil, err
			}
		}
	}
	if len(out) == 0 {
		return nil, fmt.Errorf("expansion of %s clause %q is empty", sc.mode, sc.label)
	}
	return out, nil
}
