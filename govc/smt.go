package main

// SMT-LIB plumbing: term builders and the solver race.

import (
	"bytes"
	"context"
	"fmt"
	"os"
	"os/exec"
	"path/filepath"
	"regexp"
	"strings"
	"time"
)

type Term = string

func app(f string, args ...Term) Term {
	if len(args) == 0 {
		return f
	}
	return "(" + f + " " + strings.Join(args, " ") + ")"
}

func and(ts ...Term) Term {
	var out []Term
	for _, t := range ts {
		if t == "true" || t == "" {
			continue
		}
		if t == "false" {
			return "false"
		}
		out = append(out, t)
	}
	switch len(out) {
	case 0:
		return "true"
	case 1:
		return out[0]
	}
	return app("and", out...)
}

func or(ts ...Term) Term {
	var out []Term
	for _, t := range ts {
		if t == "false" || t == "" {
			continue
		}
		if t == "true" {
			return "true"
		}
		out = append(out, t)
	}
	switch len(out) {
	case 0:
		return "false"
	case 1:
		return out[0]
	}
	return app("or", out...)
}

func not(t Term) Term {
	switch t {
	case "true":
		return "false"
	case "false":
		return "true"
	}
	if strings.HasPrefix(t, "(not ") {
		return t[5 : len(t)-1]
	}
	return app("not", t)
}

func implies(a, b Term) Term {
	if a == "true" {
		return b
	}
	if a == "false" || b == "true" {
		return "true"
	}
	return app("=>", a, b)
}

func eq(a, b Term) Term {
	if a == b {
		return "true"
	}
	return app("=", a, b)
}

func ite(c, a, b Term) Term {
	if c == "true" {
		return a
	}
	if c == "false" {
		return b
	}
	if a == b {
		return a
	}
	return app("ite", c, a, b)
}

func intLit(n int64) Term {
	if n < 0 {
		return fmt.Sprintf("(- %d)", -n)
	}
	return fmt.Sprintf("%d", n)
}

func bigLit(s string) Term { // decimal string, maybe negative
	if strings.HasPrefix(s, "-") {
		return "(- " + s[1:] + ")"
	}
	return s
}

var symSan = regexp.MustCompile(`[^A-Za-z0-9_.$]`)

// sym sanitises an arbitrary string into an SMT simple symbol.
func sym(s string) string {
	s = strings.ReplaceAll(s, "golang.org/x/tools/go/", "")
	s = strings.ReplaceAll(s, "github.com/awslabs/ar-go-tools/", "")
	s = strings.ReplaceAll(s, "*", "P")
	s = strings.ReplaceAll(s, "[]", "L")
	s = symSan.ReplaceAllString(s, "_")
	if s == "" || (s[0] >= '0' && s[0] <= '9') {
		s = "_" + s
	}
	return s
}

// ---------------------------------------------------------------------------

type SolverResult struct {
	Solver  string  `json:"solver"`
	Verdict string  `json:"verdict"` // unsat | sat | unknown | timeout | error
	Secs    float64 `json:"secs"`
	Raw     string  `json:"raw,omitempty"`
}

type solverSpec struct {
	name string
	argv func(file string, timeoutS int) []string
}

// Budgets are RESOURCE limits (z3 rlimit: a deterministic count of solver
// steps), not wall-clock time, so a verdict does not depend on machine load;
// the wall-clock limit passed to -T is only a generous safety net.
const (
	rlimitEmatch  = 40000000
	rlimitDefault = 60000000
)

var solvers = []solverSpec{
	{"z3-new-5.1.0-ematch", func(f string, t int) []string {
		// E-matching only: the usual configuration of deductive verifiers; proves fast or gives up
		return []string{"z3-new", fmt.Sprintf("-T:%d", t), fmt.Sprintf("rlimit=%d", rlimitEmatch), "smt.mbqi=false", "-smt2", f}
	}},
	{"z3-new-5.1.0-ematch-arith2", func(f string, t int) []string {
		return []string{"z3-new", fmt.Sprintf("-T:%d", t), fmt.Sprintf("rlimit=%d", rlimitEmatch), "smt.mbqi=false", "smt.arith.solver=2", "-smt2", f}
	}},
	{"z3-new-5.1.0", func(f string, t int) []string {
		return []string{"z3-new", fmt.Sprintf("-T:%d", t), fmt.Sprintf("rlimit=%d", rlimitDefault), "-smt2", f}
	}},
	{"z3-new-5.1.0-ematch-arith2-seed3", func(f string, t int) []string {
		return []string{"z3-new", fmt.Sprintf("-T:%d", t), fmt.Sprintf("rlimit=%d", rlimitEmatch), "smt.mbqi=false", "smt.arith.solver=2", "smt.random_seed=3", "-smt2", f}
	}},
	{"z3-4.8.12", func(f string, t int) []string {
		return []string{"z3", fmt.Sprintf("-T:%d", t), fmt.Sprintf("rlimit=%d", rlimitDefault), "-smt2", f}
	}},
	{"cvc5-1.0.3", func(f string, t int) []string {
		return []string{"cvc5", "--lang=smt2", fmt.Sprintf("--tlimit=%d", t*1000), "--produce-models", f}
	}},
}

// probeSolver decides Houdini candidates and vacuity probes: E-matching only with a
// small resource budget (about 3 s of CPU on a 1.5 MB query).
const rlimitProbe = 8000000

var probeSolver = solverSpec{"z3-new-5.1.0-ematch-probe", func(f string, t int) []string {
	return []string{"z3-new", fmt.Sprintf("-T:%d", t), fmt.Sprintf("rlimit=%d", rlimitProbe), "smt.mbqi=false", "-smt2", f}
}}

func runOne(sp solverSpec, file string, timeoutS int, ctx context.Context) SolverResult {
	start := time.Now()
	// timeoutS is a CPU-time cap (RLIMIT_CPU of the solver process), not a wall-clock
	// one: on an overloaded machine a solver that is merely starved must not turn into
	// an "unknown" (and a baseline obligation into an alarm). The wall-clock limits
	// (-T / --tlimit / context) are a 20x safety net against a wedged process only.
	wallS := timeoutS*20 + 60
	argv := sp.argv(file, wallS)
	cctx, cancel := context.WithTimeout(ctx, time.Duration(wallS+5)*time.Second)
	defer cancel()
	shArgs := append([]string{"-c", `ulimit -t "$0"; exec "$@"`, fmt.Sprint(timeoutS)}, argv...)
	cmd := exec.CommandContext(cctx, "sh", shArgs...)
	var out bytes.Buffer
	cmd.Stdout = &out
	cmd.Stderr = &out
	_ = cmd.Run()
	secs := time.Since(start).Seconds()
	raw := out.String()
	first := strings.TrimSpace(strings.SplitN(raw, "\n", 2)[0])
	v := "error"
	switch {
	case first == "unsat":
		v = "unsat"
	case first == "sat":
		v = "sat"
	case first == "unknown":
		v = "unknown"
	case strings.Contains(first, "timeout") || cctx.Err() != nil:
		v = "timeout"
	case first == "" && cmd.ProcessState != nil && !cmd.ProcessState.Success():
		v = "timeout" // killed by the CPU-time limit (SIGXCPU / SIGKILL) before answering
	}
	if len(raw) > 20000 {
		raw = raw[:20000] + "\n...[truncated]"
	}
	return SolverResult{Solver: sp.name, Verdict: v, Secs: secs, Raw: raw}
}

// solveRace runs the solvers on the script. Order: primary first alone for
// `grace` seconds (most goals take < 0.1 s); if undecided the others are tried.
// An obligation is discharged when some solver says unsat and none says sat.
var shortPortfolio = map[string]bool{} // obligation base names expected to fail (known findings): do not burn the whole portfolio

func solveRace(script string, name string, timeoutS int, all bool, seed int) (verdict string, results []SolverResult, file string) {
	dir := filepath.Join(workDir, "smt")
	os.MkdirAll(dir, 0o755)
	file = filepath.Join(dir, sym(name)+".smt2")
	os.WriteFile(file, []byte(script), 0o644)
	order := []int{0, 1, 2, 3, 4, 5}
	if seed%2 == 1 {
		order = []int{0, 1, 2, 3, 5, 4}
	}
	hasQuant := strings.Contains(script, "(forall ") || strings.Contains(script, "(exists ")
	order = []int{0, 1, 4, 2, 3, 5}
	if os.Getenv("GOVC_FAST") != "" {
		order = []int{0, 1, 2} // development aid: give up sooner
	}
	if !hasQuant {
		order = []int{2, 4, 5} // quantifier-free: complete configurations answer sat/unsat directly
	}
	bn := name
	if i := strings.Index(bn, ".site"); i >= 0 {
		bn = bn[:i]
	}
	if shortPortfolio[bn] && !all {
		order = []int{0, 2}
		timeoutS = min(timeoutS, 5)
	}
	ctx := context.Background()
	verdict = "unknown"
	for _, i := range order {
		sp := solvers[i]
		f := file
		if strings.HasPrefix(sp.name, "cvc5") {
			// cvc5 wants produce-models before set-logic and no get-model after unsat
			f = file + ".cvc5"
			os.WriteFile(f, []byte(cvc5Dialect(script)), 0o644)
		}
		ematch := strings.Contains(sp.name, "ematch")
		// CPU-time cap (see runOne); the real budget of the E-matching configurations is
		// their rlimit, which they exhaust long before this. MBQI configurations can grind
		// for minutes on the aggregated obligations of the large traversal functions
		// without consuming their rlimit budget: a cross-check that does not answer within
		// 150 s of CPU is recorded as a timeout.
		tmo := 150
		if !ematch && timeoutS*12 < tmo {
			tmo = timeoutS * 12
		}
		if strings.HasPrefix(sp.name, "cvc5") {
			tmo = timeoutS * 2
		}
		r := runOne(sp, f, tmo, ctx)
		if ematch && r.Verdict == "sat" {
			r.Verdict = "unknown" // without MBQI a `sat` only means no more E-matching instances
		}
		results = append(results, r)
		if r.Verdict == "sat" {
			verdict = "sat"
			if !all {
				return
			}
		}
		if r.Verdict == "unsat" && verdict != "sat" {
			verdict = "unsat"
			if !all {
				return
			}
		}
	}
	// disagreement = treat as sat (never silently discharge)
	return
}

func cvc5Dialect(s string) string {
	s = strings.ReplaceAll(s, "(get-model)", "")
	s = strings.ReplaceAll(s, "(set-option :smt.mbqi true)", "")
	return "(set-logic ALL)\n" + s
}
