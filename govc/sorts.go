package main

// Mapping of Go types to SMT sorts, type tags, closed worlds, heap names.

import (
	"fmt"
	"go/types"
	"math/big"
	"sort"
	"strings"
)

const prelude = `(declare-sort Str 0)
(declare-datatypes ((Iface 0)) (((mk_iface (itag Int) (ival Int)))))
(declare-datatypes ((Slice 0)) (((mk_slice (s_arr Int) (s_off Int) (s_len Int) (s_cap Int)))))
(declare-fun str_len (Str) Int)
(declare-const str_empty Str)
(assert (= (str_len str_empty) 0))
(declare-fun str_concat (Str Str) Str)
(declare-fun str_lt (Str Str) Bool)
(define-fun iface_nil () Iface (mk_iface 0 0))
(define-fun slice_nil () Slice (mk_slice 0 0 0 0))
`

// Universe holds run-global registries (type tags, struct datatypes).
type Universe struct {
	worlds   map[string][]types.Type
	tags     map[string]int
	tagTypes []types.Type // index = tag-1
	prog     *Loaded
}

func newUniverse(l *Loaded) *Universe {
	return &Universe{tags: map[string]int{}, prog: l}
}

func typeKey(t types.Type) string { return types.TypeString(t, nil) }

func (u *Universe) tagOf(t types.Type) int {
	k := typeKey(t)
	if n, ok := u.tags[k]; ok {
		return n
	}
	u.tagTypes = append(u.tagTypes, t)
	n := len(u.tagTypes)
	u.tags[k] = n
	return n
}

// world returns the concrete types (T or *T) declared in the package defining
// the named interface that implement it. Sorted by type string.
func (u *Universe) world(named *types.Named) (out []types.Type) {
	iface, ok := named.Underlying().(*types.Interface)
	if !ok {
		return nil
	}
	wk := structKey(named)
	if w, ok := u.worlds[wk]; ok {
		return w
	}
	if u.worlds == nil {
		u.worlds = map[string][]types.Type{}
	}
	defer func() { u.worlds[wk] = out }()
	pkg := named.Obj().Pkg()
	scope := pkg.Scope()
	for _, name := range scope.Names() {
		tn, ok := scope.Lookup(name).(*types.TypeName)
		if !ok || tn.IsAlias() {
			continue
		}
		T := tn.Type()
		if _, isI := T.Underlying().(*types.Interface); isI {
			continue
		}
		if nt, ok := T.(*types.Named); ok && nt.TypeParams().Len() > 0 {
			continue
		}
		if types.Implements(T, iface) {
			out = append(out, T)
		} else if types.Implements(types.NewPointer(T), iface) {
			out = append(out, types.NewPointer(T))
		}
	}
	sort.Slice(out, func(i, j int) bool { return typeKey(out[i]) < typeKey(out[j]) })
	return out
}

// closedIfaces: interfaces whose dynamic types are assumed to come from the
// defining package only. ssa.Instruction is closed by the language (unexported
// methods); the others are recorded as assumptions.
var closedIfaces = map[string]bool{
	"golang.org/x/tools/go/ssa.Instruction":                             true,
	"golang.org/x/tools/go/ssa.Value":                                   true,
	"golang.org/x/tools/go/ssa.CallInstruction":                         true,
	"golang.org/x/tools/go/ssa.Node":                                    true,
	"go/types.Type":                                                     true,
	"github.com/awslabs/ar-go-tools/analysis/dataflow.GraphNode":        true,
	"github.com/awslabs/ar-go-tools/analysis/dataflow.IndexedGraphNode": true,
}

// ---------------------------------------------------------------------------

func isStructPtr(t types.Type) (*types.Struct, types.Type, bool) {
	p, ok := t.Underlying().(*types.Pointer)
	if !ok {
		return nil, nil, false
	}
	s, ok := p.Elem().Underlying().(*types.Struct)
	return s, p.Elem(), ok
}

// structKey names the struct type owning field heaps.
func structKey(t types.Type) string {
	if a, ok := t.(*types.Alias); ok {
		t = types.Unalias(a)
	}
	if n, ok := t.(*types.Named); ok {
		if n.TypeArgs().Len() > 0 {
			return typeKey(n)
		}
		o := n.Obj()
		if o.Pkg() != nil {
			return o.Pkg().Path() + "." + o.Name()
		}
		return o.Name()
	}
	return typeKey(t)
}

// elemKey names the element type owning an elem / ptr heap. Named non-struct
// types share the heap of their underlying type (conversions alias).
func elemKey(t types.Type) string {
	t = types.Unalias(t)
	if _, ok := t.Underlying().(*types.Struct); ok {
		return structKey(t)
	}
	if _, ok := t.Underlying().(*types.Interface); ok {
		return typeKey(t)
	}
	switch u := t.Underlying().(type) {
	case *types.Pointer:
		return "*" + elemKey(u.Elem())
	case *types.Slice:
		return "[]" + elemKey(u.Elem())
	case *types.Basic:
		return u.Name()
	}
	return typeKey(t.Underlying())
}

// pkgOfKey extracts the package path of a heap-owner key ("*pkg/path.Name" ...).
func pkgOfKey(k string) string {
	k = strings.TrimLeft(k, "*[]")
	if i := strings.LastIndex(k, "."); i >= 0 {
		return k[:i]
	}
	return ""
}

var stablePkgs = map[string]bool{
	"golang.org/x/tools/go/ssa": true,
	"go/types":                  true,
	"go/token":                  true,
	"go/constant":               true,
	"go/ast":                    true,
}

// heapStable: heaps whose pre-existing cells are assumed untouched by callees
// (SSA / go/types objects are never mutated by the analyses). Recorded as an
// assumption in every evidence file; checked mechanically by `govc scan-stable`.
// declaredStable: field heaps declared `immutable` in a contract file and checked
// mechanically (every store to the field targets an object allocated in the same function).
var declaredStable = map[string]bool{}

// partialStable: heap -> sub-reference functions at which the heap is never modified
// on pre-existing objects (`immutable Owner.embedded.leaf`: the leaf field of the
// struct embedded in Owner); a havoc keeps the heap's values at those references.
var partialStable = map[string][]string{}

func heapStable(name string) bool {
	if declaredStable[name] {
		return true
	}
	parts := strings.SplitN(name, "|", 3)
	if len(parts) < 2 {
		return false
	}
	switch parts[0] {
	case "H", "E", "P":
		return stablePkgs[pkgOfKey(parts[1])]
	case "IT": // ghost iterator state is local to the function
		return true
	}
	return false
}

// ---------------------------------------------------------------------------

type sortCtx struct {
	u         *Universe
	typeDecls []string // datatype declarations (always emitted first; survive reset)
	decls     []string
	declared  map[string]bool
	structs   map[string]string // structKey -> datatype name
	unsup     []string
}

func (c *sortCtx) declare(name, line string) {
	if c.declared[name] {
		return
	}
	c.declared[name] = true
	c.decls = append(c.decls, line)
}

func (c *sortCtx) unsupported(format string, a ...any) {
	c.unsup = append(c.unsup, fmt.Sprintf(format, a...))
}

func (c *sortCtx) sortOf(t types.Type) string {
	t = types.Unalias(t)
	switch u := t.Underlying().(type) {
	case *types.Basic:
		switch {
		case u.Info()&types.IsBoolean != 0:
			return "Bool"
		case u.Info()&types.IsInteger != 0:
			return "Int"
		case u.Info()&types.IsString != 0:
			return "Str"
		case u.Info()&types.IsFloat != 0:
			return "Real"
		case u.Kind() == types.UnsafePointer || u.Kind() == types.UntypedNil:
			return "Int"
		}
		c.unsupported("basic type %s", u)
		return "Int"
	case *types.Pointer, *types.Map, *types.Chan, *types.Signature:
		return "Int"
	case *types.Interface:
		return "Iface"
	case *types.Slice:
		return "Slice"
	case *types.Struct:
		return c.structSort(t, u)
	case *types.Array:
		return "(Array Int " + c.sortOf(u.Elem()) + ")"
	case *types.Tuple:
		c.unsupported("tuple sort requested")
		return "Int"
	case *types.TypeParam:
		c.unsupported("type parameter %s", t)
		return "Int"
	}
	c.unsupported("type %s", t)
	return "Int"
}

func (c *sortCtx) structSort(t types.Type, s *types.Struct) string {
	k := structKey(t)
	if n, ok := c.structs[k]; ok {
		return n
	}
	name := "S." + sym(k)
	if len(name) > 80 {
		name = fmt.Sprintf("%s.%d", name[:70], len(c.structs))
	}
	c.structs[k] = name
	var fs []string
	for i := 0; i < s.NumFields(); i++ {
		fs = append(fs, fmt.Sprintf("(%s %s)", c.fieldSel(name, s, i), c.sortOf(s.Field(i).Type())))
	}
	if len(fs) == 0 {
		fs = append(fs, fmt.Sprintf("(%s.dummy Int)", name))
	}
	c.typeDecls = append(c.typeDecls, fmt.Sprintf("(declare-datatypes ((%s 0)) (((mk.%s %s))))", name, name, strings.Join(fs, " ")))
	return name
}

func (c *sortCtx) fieldSel(dt string, s *types.Struct, i int) string {
	return fmt.Sprintf("%s.%s", dt, sym(s.Field(i).Name()))
}

func (c *sortCtx) zero(t types.Type) Term {
	t = types.Unalias(t)
	switch u := t.Underlying().(type) {
	case *types.Basic:
		switch {
		case u.Info()&types.IsBoolean != 0:
			return "false"
		case u.Info()&types.IsString != 0:
			return "str_empty"
		case u.Info()&types.IsFloat != 0:
			return "0.0"
		}
		return "0"
	case *types.Interface:
		return "(mk_iface 0 0)"
	case *types.Slice:
		return "(mk_slice 0 0 0 0)"
	case *types.Struct:
		dt := c.structSort(t, u)
		var zs []string
		for i := 0; i < u.NumFields(); i++ {
			zs = append(zs, c.zero(u.Field(i).Type()))
		}
		if len(zs) == 0 {
			zs = []string{"0"}
		}
		return app("mk."+dt, zs...)
	case *types.Array:
		return fmt.Sprintf("((as const %s) %s)", c.sortOf(t), c.zero(u.Elem()))
	}
	return "0"
}

// intRange gives the range constraint of an integer-typed term.
func intRange(t types.Type, x Term) Term {
	b, ok := types.Unalias(t).Underlying().(*types.Basic)
	if !ok || b.Info()&types.IsInteger == 0 {
		return "true"
	}
	lo, hi := intBounds(b)
	return and(app("<=", lo, x), app("<=", x, hi))
}

func intBounds(b *types.Basic) (string, string) {
	switch b.Kind() {
	case types.Int8:
		return "(- 128)", "127"
	case types.Int16:
		return "(- 32768)", "32767"
	case types.Int32:
		return "(- 2147483648)", "2147483647"
	case types.Int, types.Int64, types.UntypedInt, types.UntypedRune:
		return "(- 9223372036854775808)", "9223372036854775807"
	case types.Uint8:
		return "0", "255"
	case types.Uint16:
		return "0", "65535"
	case types.Uint32:
		return "0", "4294967295"
	case types.Uint, types.Uint64, types.Uintptr:
		return "0", "18446744073709551615"
	}
	return "(- 9223372036854775808)", "9223372036854775807"
}

func intWidth(b *types.Basic) (bits int, signed bool) {
	switch b.Kind() {
	case types.Int8:
		return 8, true
	case types.Int16:
		return 16, true
	case types.Int32:
		return 32, true
	case types.Int, types.Int64, types.UntypedInt, types.UntypedRune:
		return 64, true
	case types.Uint8:
		return 8, false
	case types.Uint16:
		return 16, false
	case types.Uint32:
		return 32, false
	case types.Uint, types.Uint64, types.Uintptr:
		return 64, false
	}
	return 64, true
}

func pow2(n int) string {
	return new(big.Int).Lsh(big.NewInt(1), uint(n)).String()
}
