package main

// Contract language: line-oriented clauses in //@ comments, Go-like expressions.

import (
	"fmt"
	"strings"
	"unicode"
)

// ---------------------------------------------------------------- AST

type specExpr interface{}

type (
	eIdent struct{ name string }
	eInt   struct{ v string }
	eStr   struct{ v string }
	eSel   struct {
		x    specExpr
		name string
	}
	eIndex struct{ x, i specExpr }
	eCall  struct {
		fun  specExpr
		args []specExpr
	}
	eUnary struct {
		op string
		x  specExpr
	}
	eBinary struct {
		op   string
		x, y specExpr
	}
	eQuant struct {
		forall bool
		vars   []qvar
		body   specExpr
	}
	eTypeAssert struct {
		x   specExpr
		typ *typeExpr
	}
	eType  struct{ typ *typeExpr }
	eWild  struct{}
	eSlice struct{ x, lo, hi specExpr }
)

type qvar struct {
	name string
	typ  *typeExpr
}

type typeExpr struct {
	ptr   int
	slice bool
	mapK  *typeExpr // map[K]elem
	pkg   string
	name  string
	elem  *typeExpr // for slice
}

func (t *typeExpr) String() string {
	s := strings.Repeat("*", t.ptr)
	if t.slice {
		return s + "[]" + t.elem.String()
	}
	if t.pkg != "" {
		return s + t.pkg + "." + t.name
	}
	return s + t.name
}

// ---------------------------------------------------------------- lexer

type tok struct {
	kind string // id int str op eof
	s    string
}

func lexSpec(src string) ([]tok, error) {
	var out []tok
	i := 0
	ops := []string{"<==>", "==>", "::", "&&", "||", "==", "!=", "<=", ">=", "<<", ">>", "+", "-", "*", "/", "%", "<", ">", "!", "(", ")", "[", "]", ".", ",", ":", "&", "|", "{", "}", "$"}
	for i < len(src) {
		ch := rune(src[i])
		switch {
		case unicode.IsSpace(ch):
			i++
		case unicode.IsLetter(ch) || ch == '_':
			j := i
			for j < len(src) && (unicode.IsLetter(rune(src[j])) || unicode.IsDigit(rune(src[j])) || src[j] == '_') {
				j++
			}
			out = append(out, tok{"id", src[i:j]})
			i = j
		case unicode.IsDigit(ch):
			j := i
			for j < len(src) && unicode.IsDigit(rune(src[j])) {
				j++
			}
			out = append(out, tok{"int", src[i:j]})
			i = j
		case ch == '"':
			j := i + 1
			for j < len(src) && src[j] != '"' {
				if src[j] == '\\' {
					j++
				}
				j++
			}
			if j >= len(src) {
				return nil, fmt.Errorf("unterminated string in %q", src)
			}
			out = append(out, tok{"str", src[i+1 : j]})
			i = j + 1
		default:
			matched := false
			for _, op := range ops {
				if strings.HasPrefix(src[i:], op) {
					out = append(out, tok{"op", op})
					i += len(op)
					matched = true
					break
				}
			}
			if !matched {
				return nil, fmt.Errorf("unexpected character %q in %q", ch, src)
			}
		}
	}
	out = append(out, tok{"eof", ""})
	return out, nil
}

// ---------------------------------------------------------------- parser

type specParser struct {
	toks []tok
	pos  int
	src  string
}

func parseSpecExpr(src string) (e specExpr, err error) {
	toks, err := lexSpec(src)
	if err != nil {
		return nil, err
	}
	p := &specParser{toks: toks, src: src}
	defer func() {
		if r := recover(); r != nil {
			if pe, ok := r.(parseErr); ok {
				err = fmt.Errorf("%s in %q", string(pe), src)
				return
			}
			panic(r)
		}
	}()
	e = p.expr(0)
	if p.peek().kind != "eof" {
		p.fail("trailing input at %q", p.peek().s)
	}
	return e, nil
}

type parseErr string

func (p *specParser) fail(f string, a ...any) { panic(parseErr(fmt.Sprintf(f, a...))) }
func (p *specParser) peek() tok               { return p.toks[p.pos] }
func (p *specParser) next() tok               { t := p.toks[p.pos]; p.pos++; return t }
func (p *specParser) isOp(s string) bool      { t := p.peek(); return t.kind == "op" && t.s == s }
func (p *specParser) expect(s string) {
	if !p.isOp(s) {
		p.fail("expected %q, got %q", s, p.peek().s)
	}
	p.pos++
}

var binPrec = map[string]int{
	"<==>": 1, "==>": 2, "||": 3, "&&": 4,
	"==": 5, "!=": 5, "<": 5, "<=": 5, ">": 5, ">=": 5,
	"+": 6, "-": 6, "|": 6, "*": 7, "/": 7, "%": 7, "&": 7,
}

func (p *specParser) expr(minPrec int) specExpr {
	// quantifiers extend as far right as possible
	if t := p.peek(); t.kind == "id" && (t.s == "forall" || t.s == "exists") {
		p.next()
		q := &eQuant{forall: t.s == "forall"}
		for {
			var names []string
			names = append(names, p.ident())
			for p.isOp(",") {
				// either "x, y T" or "x T, y U": look ahead: ident followed by , or type
				save := p.pos
				p.next()
				if p.peek().kind == "id" {
					n := p.ident()
					if p.isOp(",") || p.isOp("::") || p.peek().kind == "id" || p.isOp("*") || p.isOp("[") {
						names = append(names, n)
						continue
					}
				}
				p.pos = save
				break
			}
			ty := p.typ()
			for _, n := range names {
				q.vars = append(q.vars, qvar{n, ty})
			}
			if p.isOp(",") {
				p.next()
				continue
			}
			break
		}
		p.expect("::")
		q.body = p.expr(0)
		return q
	}
	lhs := p.unary()
	for {
		t := p.peek()
		if t.kind != "op" {
			break
		}
		prec, ok := binPrec[t.s]
		if !ok || prec < minPrec {
			break
		}
		p.next()
		var rhs specExpr
		if t.s == "==>" { // right assoc
			rhs = p.expr(prec)
		} else {
			rhs = p.expr(prec + 1)
		}
		lhs = &eBinary{t.s, lhs, rhs}
	}
	return lhs
}

func (p *specParser) ident() string {
	t := p.next()
	if t.kind != "id" {
		p.fail("expected identifier, got %q", t.s)
	}
	return t.s
}

func (p *specParser) typ() *typeExpr {
	te := &typeExpr{}
	for p.isOp("*") {
		p.next()
		te.ptr++
	}
	if p.isOp("[") {
		p.next()
		p.expect("]")
		te.slice = true
		te.elem = p.typ()
		return te
	}
	n := p.ident()
	if n == "map" && p.isOp("[") {
		p.next()
		te.mapK = p.typ()
		p.expect("]")
		te.elem = p.typ()
		return te
	}
	if p.isOp(".") {
		p.next()
		te.pkg = n
		te.name = p.ident()
	} else {
		te.name = n
	}
	return te
}

func (p *specParser) unary() specExpr {
	if p.isOp("!") {
		p.next()
		return &eUnary{"!", p.unary()}
	}
	if p.isOp("-") {
		p.next()
		return &eUnary{"-", p.unary()}
	}
	if p.isOp("&") {
		p.next()
		return &eUnary{"&", p.unary()}
	}
	if p.isOp("*") {
		p.next()
		return &eUnary{"*", p.unary()}
	}
	return p.postfix(p.primary())
}

func (p *specParser) primary() specExpr {
	t := p.next()
	switch t.kind {
	case "int":
		return &eInt{t.s}
	case "str":
		return &eStr{t.s}
	case "id":
		if t.s == "_" {
			return &eWild{}
		}
		return &eIdent{t.s}
	case "op":
		if t.s == "(" {
			e := p.expr(0)
			p.expect(")")
			return e
		}
		if t.s == "$" {
			return &eIdent{"$" + p.ident()}
		}
	}
	p.fail("unexpected token %q", t.s)
	return nil
}

// callsWithTypeArg: builtins whose listed argument positions are types.
var typeArgAt = map[string]int{"istype": 1, "zero": 0, "world": 0, "elems": 0, "ptr": 0}

func (p *specParser) postfix(e specExpr) specExpr {
	for {
		switch {
		case p.isOp("."):
			p.next()
			if p.isOp("(") { // type assertion
				p.next()
				ty := p.typ()
				p.expect(")")
				e = &eTypeAssert{e, ty}
			} else {
				e = &eSel{e, p.ident()}
			}
		case p.isOp("["):
			p.next()
			if p.isOp(":") {
				p.next()
				hi := p.expr(0)
				p.expect("]")
				e = &eSlice{e, nil, hi}
				continue
			}
			i := p.expr(0)
			if p.isOp(":") {
				p.next()
				var hi specExpr
				if !p.isOp("]") {
					hi = p.expr(0)
				}
				p.expect("]")
				e = &eSlice{e, i, hi}
				continue
			}
			p.expect("]")
			e = &eIndex{e, i}
		case p.isOp("("):
			p.next()
			call := &eCall{fun: e}
			tpos := -1
			if id, ok := e.(*eIdent); ok {
				if n, ok := typeArgAt[id.name]; ok {
					tpos = n
				}
			}
			for !p.isOp(")") {
				if len(call.args) == tpos {
					call.args = append(call.args, &eType{p.typ()})
				} else {
					call.args = append(call.args, p.expr(0))
				}
				if p.isOp(",") {
					p.next()
				} else {
					break
				}
			}
			p.expect(")")
			e = call
		default:
			return e
		}
	}
}

// ---------------------------------------------------------------- contract files

type clause struct {
	uses     []string // labels of the loop invariants this clause's proof needs (nil = all)
	label    string
	src      string
	expr     specExpr
	line     specLine
	witness  string
	cover    bool
	variadic bool
}

type loopSpec struct {
	invariants []*clause
	decreases  *clause
	exits      []*clause // asserted on every edge leaving the loop
	bodies     []*clause // asserted at every back edge about ONE iteration (events are iteration-local)
	entries    []*clause // asserted when the loop is entered (never assumed at the head)
}

type slotClause struct {
	scrutinee string   // expression text of the interface value whose kind/slots are enumerated
	world     string   // interface type text, e.g. ssa.Instruction
	except    []string // Kind.Slot or Kind
	only      []string
	mode      string // "slots" | "kinds"
	label     string
	body      string // uses $K, $slot, $x (scrutinee asserted to kind)
	instance  bool   // "assume": one verification instance of the function per (kind, slot)
	line      specLine
}

type ghostDecl struct {
	name string
	typ  string
}

type specFunc struct {
	name   string
	params []qvar
	result *typeExpr
	body   specExpr
	src    string
}

type FuncSpec struct {
	pkg           string
	name          string
	props         []string
	ghosts        []ghostDecl
	requires      []*clause
	ensures       []*clause
	loops         map[int]*loopSpec
	loopsByName   map[string]*loopSpec
	modifies      []string
	hasModifies   bool
	reads         []string
	opaque        map[string]bool // callees whose postconditions are not unfolded here (only lemmas about them are used)
	safety        bool
	nilsafe       []string // Type.Field designators whose values must be nil-checked before use
	nopanic       bool
	arithChecked  bool
	pure          bool
	persite       bool            // decide each site of an obligation separately from the start
	options       map[string]bool // proof-engineering switches (`option <name>`); never change what is proved, only which triggers are emitted
	slots         []*slotClause
	line          specLine
	assumeOnly    bool // contract assumed, not verified (listed in trusted base)
	expanded      []*clause
	expandedDone  bool
	timeout       int
	loopCount     int // `loops <n>`: loops of the function when the ordinal clauses were written
	loopCountLine specLine
}

func (f *FuncSpec) oname() string {
	p := "C??"
	if len(f.props) > 0 {
		p = f.props[0]
	}
	return p + "." + strings.NewReplacer("(", "", ")", "", "*", "").Replace(f.name)
}

type lemmaSpec struct {
	name  string
	props []string
	src   string
	expr  specExpr
	line  specLine
	pkg   string
}

type immDecl struct {
	pkg   string
	typ   string
	via   string // `immutable Owner.via.leaf`: the struct embedded in field via of Owner
	field string
	props []string
	line  specLine
}

type SpecSet struct {
	immutables []immDecl
	funcs      map[string]*FuncSpec // key pkg + "#" + name
	order      []*FuncSpec
	specFn     map[string]map[string]*specFunc // per package
	lemmas     []*lemmaSpec
	axioms     []*lemmaSpec
	errs       []string
}

func newSpecSet() *SpecSet {
	return &SpecSet{funcs: map[string]*FuncSpec{}, specFn: map[string]map[string]*specFunc{}}
}

func splitLabel(s string) (label, rest string) {
	s = strings.TrimSpace(s)
	// label: leading identifier (may contain dots / dashes) followed by ':' not '::'
	for i := 0; i < len(s); i++ {
		ch := s[i]
		if ch == ':' {
			if i+1 < len(s) && s[i+1] == ':' {
				return "", s
			}
			if i == 0 {
				return "", s
			}
			return s[:i], strings.TrimSpace(s[i+1:])
		}
		if ch == '{' {
			j := strings.Index(s[i:], "}")
			if j < 0 {
				return "", s
			}
			i += j
			continue
		}
		if !(unicode.IsLetter(rune(ch)) || unicode.IsDigit(rune(ch)) || ch == '_' || ch == '.' || ch == '-' || ch == '$') {
			return "", s
		}
	}
	return "", s
}

var clauseKeywords = map[string]bool{"func": true, "property": true, "ghost": true, "requires": true, "ensures": true, "loop": true,
	"modifies": true, "reads": true, "safety": true, "nopanic": true, "arith": true, "pure": true, "slots": true, "kinds": true, "spec": true,
	"lemma": true, "axiom": true, "assumed": true, "cover": true, "timeout": true, "macro": true, "immutable": true, "opaque": true, "persite": true, "option": true, "loops": true, "nilsafe": true}

// parseContracts parses the //@ lines of one package.
func (ss *SpecSet) parseContracts(pkg string, lines []specLine) {
	// join continuation lines
	var joined []specLine
	for _, l := range lines {
		t := strings.TrimSpace(l.text)
		if t == "" {
			continue
		}
		first := strings.Fields(t)[0]
		if len(joined) > 0 && (first == "ensures" || first == "assume") {
			pf := strings.Fields(joined[len(joined)-1].text)[0]
			pt := joined[len(joined)-1].text
			if (pf == "slots" || pf == "kinds") && !strings.Contains(pt, " ensures ") && !strings.Contains(pt, " assume ") {
				joined[len(joined)-1].text += " " + t
				continue
			}
		}
		if clauseKeywords[first] || len(joined) == 0 {
			joined = append(joined, specLine{text: t, file: l.file, line: l.line})
		} else {
			joined[len(joined)-1].text += " " + t
		}
	}
	var cur *FuncSpec
	macros := map[string]*macroDef{}
	fail := func(l specLine, f string, a ...any) {
		ss.errs = append(ss.errs, fmt.Sprintf("%s:%d: %s", l.file, l.line, fmt.Sprintf(f, a...)))
	}
	mkClause := func(l specLine, rest string) *clause {
		label, src := splitLabel(rest)
		var uses []string
		hasUses := false
		if i := strings.Index(label, "{"); i >= 0 && strings.HasSuffix(label, "}") {
			hasUses = true
			for _, u := range strings.Split(label[i+1:len(label)-1], ",") {
				if u = strings.TrimSpace(u); u != "" {
					uses = append(uses, u)
				}
			}
			label = label[:i]
			if uses == nil {
				uses = []string{}
			}
		}
		_ = hasUses
		e, err := parseSpecExpr(src)
		if err != nil {
			fail(l, "%v", err)
			return nil
		}
		return &clause{label: label, src: src, expr: e, line: l, uses: uses}
	}
	if ss.specFn[pkg] == nil {
		ss.specFn[pkg] = map[string]*specFunc{}
	}
	var curProps []string
	for _, l := range joined {
		fields := strings.Fields(l.text)
		kw := fields[0]
		rest := strings.TrimSpace(l.text[len(kw):])
		if kw == "macro" {
			md, err := parseMacro(rest)
			if err != nil {
				fail(l, "%v", err)
			} else {
				macros[md.name] = md
			}
			continue
		}
		l.text = expandMacros(l.text, macros)
		rest = strings.TrimSpace(l.text[len(kw):])
		switch kw {
		case "func":
			name := strings.Fields(rest)[0]
			fpkg := pkg
			assumed := false
			if pkg == "deps" && len(strings.Fields(rest)) >= 2 {
				// deps.spec: func <package path> <Name>: an assumed contract on a dependency
				fpkg = strings.Fields(rest)[0]
				name = strings.Fields(rest)[1]
				assumed = true
			}
			cur = &FuncSpec{pkg: fpkg, name: name, loops: map[int]*loopSpec{}, loopsByName: map[string]*loopSpec{}, line: l, assumeOnly: assumed}
			ss.funcs[fpkg+"#"+strings.NewReplacer("(", "", ")", "", "*", "").Replace(name)] = cur
			ss.order = append(ss.order, cur)
			continue
		case "spec":
			sf, err := parseSpecFunc(rest)
			if err != nil {
				fail(l, "%v", err)
			} else {
				ss.specFn[pkg][sf.name] = sf
			}
			continue
		case "immutable":
			for _, d := range strings.Fields(strings.ReplaceAll(rest, ",", " ")) {
				i := strings.LastIndex(d, ".")
				if i <= 0 {
					fail(l, "immutable Type.field")
					continue
				}
				typ, via := d[:i], ""
				if j := strings.Index(typ, "."); j > 0 {
					typ, via = typ[:j], typ[j+1:]
				}
				ss.immutables = append(ss.immutables, immDecl{pkg: pkg, typ: typ, via: via, field: d[i+1:], props: curProps, line: l})
			}
			continue
		case "lemma", "axiom":
			label, src := splitLabel(rest)
			e, err := parseSpecExpr(src)
			if err != nil {
				fail(l, "%v", err)
				continue
			}
			ls := &lemmaSpec{name: label, src: src, expr: e, line: l, pkg: pkg, props: curProps}
			if kw == "lemma" {
				ss.lemmas = append(ss.lemmas, ls)
			} else {
				ss.axioms = append(ss.axioms, ls)
			}
			continue
		case "property":
			if cur != nil && len(cur.props) > 0 {
				// a second property line closes the func block: it is a section header
				cur = nil
			}
			if cur == nil {
				curProps = strings.Fields(rest)
				continue
			}
		}
		if cur == nil {
			fail(l, "clause %q outside a func block", kw)
			continue
		}
		switch kw {
		case "property":
			cur.props = strings.Fields(rest)
			curProps = cur.props
		case "ghost":
			fs := strings.Fields(rest)
			if len(fs) < 2 {
				fail(l, "ghost needs name and type")
				continue
			}
			cur.ghosts = append(cur.ghosts, ghostDecl{fs[0], strings.Join(fs[1:], " ")})
		case "requires":
			if c := mkClause(l, rest); c != nil {
				cur.requires = append(cur.requires, c)
			}
		case "ensures":
			if c := mkClause(l, rest); c != nil {
				cur.ensures = append(cur.ensures, c)
			}
		case "cover":
			if c := mkClause(l, rest); c != nil {
				c.cover = true
				cur.ensures = append(cur.ensures, c)
			}
		case "loop":
			var n int
			var what string
			lf := strings.Fields(rest)
			if len(lf) < 3 {
				fail(l, "loop <n|var> invariant|decreases <expr>")
				continue
			}
			what = lf[1]
			idx := strings.Index(rest, what) + len(what)
			var ls *loopSpec
			if _, err := fmt.Sscanf(lf[0], "%d", &n); err == nil {
				ls = cur.loops[n]
				if ls == nil {
					ls = &loopSpec{}
					cur.loops[n] = ls
				}
			} else {
				ls = cur.loopsByName[lf[0]]
				if ls == nil {
					ls = &loopSpec{}
					cur.loopsByName[lf[0]] = ls
				}
			}
			c := mkClause(l, rest[idx:])
			if c == nil {
				continue
			}
			if what == "invariant" {
				ls.invariants = append(ls.invariants, c)
			} else if what == "decreases" {
				ls.decreases = c
			} else if what == "exit" {
				ls.exits = append(ls.exits, c)
			} else if what == "body" {
				ls.bodies = append(ls.bodies, c)
			} else if what == "entry" {
				ls.entries = append(ls.entries, c)
			} else {
				fail(l, "unknown loop clause %q", what)
			}
		case "modifies":
			cur.hasModifies = true
			for _, m := range strings.Split(rest, ",") {
				m = strings.TrimSpace(m)
				if m != "" && m != "nothing" {
					cur.modifies = append(cur.modifies, m)
				}
			}
		case "opaque":
			if cur.opaque == nil {
				cur.opaque = map[string]bool{}
			}
			for _, m := range strings.Fields(strings.ReplaceAll(rest, ",", " ")) {
				cur.opaque[m] = true
			}
		case "reads":
			for _, m := range strings.Split(rest, ",") {
				if m = strings.TrimSpace(m); m != "" {
					cur.reads = append(cur.reads, m)
				}
			}
		case "safety":
			cur.safety = true
		case "nopanic":
			cur.nopanic = true
		case "arith":
			cur.arithChecked = strings.Contains(rest, "checked")
		case "pure":
			cur.pure = true
		case "persite":
			cur.persite = true
		case "option":
			if cur.options == nil {
				cur.options = map[string]bool{}
			}
			for _, m := range strings.Fields(rest) {
				cur.options[m] = true
			}
		case "assumed":
			cur.assumeOnly = true
		case "timeout":
			fmt.Sscanf(rest, "%d", &cur.timeout)
		case "nilsafe":
			// `nilsafe pkg.Type.Field ...`: pointers read from these (nil-by-design) fields are
			// never dereferenced unguarded in this function
			cur.nilsafe = append(cur.nilsafe, strings.Fields(rest)...)
		case "loops":
			// number of loops of the function the ordinal `loop <n>` clauses were written for
			fmt.Sscanf(rest, "%d", &cur.loopCount)
			cur.loopCountLine = l
		case "slots", "kinds":
			sc, err := parseSlotClause(kw, rest)
			if err != nil {
				fail(l, "%v", err)
				continue
			}
			sc.line = l
			cur.slots = append(cur.slots, sc)
		default:
			fail(l, "unknown clause %q", kw)
		}
	}
}

// slots <scrutinee-expr> world <iface> [except A.B,C] [only A.B] ensures <label>: <body>
func parseSlotClause(mode, rest string) (*slotClause, error) {
	sc := &slotClause{mode: mode}
	i := strings.Index(rest, " ensures ")
	kwl := len(" ensures ")
	if i < 0 {
		i = strings.Index(rest, " assume ")
		kwl = len(" assume ")
		sc.instance = true
	}
	if i < 0 {
		return nil, fmt.Errorf("%s clause needs 'ensures' or 'assume'", mode)
	}
	head := rest[:i]
	sc.label, sc.body = splitLabel(rest[i+kwl:])
	get := func(kw string) string {
		j := strings.Index(head, " "+kw+" ")
		if j < 0 {
			return ""
		}
		s := head[j+len(kw)+2:]
		for _, k := range []string{" world ", " except ", " only "} {
			if m := strings.Index(s, k); m >= 0 {
				s = s[:m]
			}
		}
		return strings.TrimSpace(s)
	}
	head = " " + head + " "
	w := strings.Index(head, " world ")
	if w < 0 {
		return nil, fmt.Errorf("%s clause needs 'world'", mode)
	}
	sc.scrutinee = strings.TrimSpace(head[:w])
	sc.world = get("world")
	for _, e := range strings.Split(get("except"), ",") {
		if e = strings.TrimSpace(e); e != "" {
			sc.except = append(sc.except, e)
		}
	}
	for _, e := range strings.Split(get("only"), ",") {
		if e = strings.TrimSpace(e); e != "" {
			sc.only = append(sc.only, e)
		}
	}
	return sc, nil
}

// spec name(a T, b U) R = expr
func parseSpecFunc(rest string) (*specFunc, error) {
	eqi := strings.Index(rest, " = ")
	head, body := rest, ""
	if eqi >= 0 {
		head, body = rest[:eqi], rest[eqi+3:]
	}
	toks, err := lexSpec(head)
	if err != nil {
		return nil, err
	}
	p := &specParser{toks: toks, src: head}
	sf := &specFunc{src: rest}
	var perr error
	func() {
		defer func() {
			if r := recover(); r != nil {
				perr = fmt.Errorf("%v in %q", r, head)
			}
		}()
		sf.name = p.ident()
		p.expect("(")
		for !p.isOp(")") {
			var names []string
			names = append(names, p.ident())
			for p.isOp(",") {
				p.next()
				names = append(names, p.ident())
			}
			ty := p.typ()
			for _, n := range names {
				sf.params = append(sf.params, qvar{n, ty})
			}
			if p.isOp(",") {
				p.next()
			}
		}
		p.expect(")")
		sf.result = p.typ()
	}()
	if perr != nil {
		return nil, perr
	}
	if body == "" {
		return sf, nil // uninterpreted
	}
	sf.body, err = parseSpecExpr(body)
	return sf, err
}

func parseTypeText(s string) (*typeExpr, error) {
	toks, err := lexSpec(s)
	if err != nil {
		return nil, err
	}
	p := &specParser{toks: toks, src: s}
	var te *typeExpr
	var perr error
	func() {
		defer func() {
			if r := recover(); r != nil {
				perr = fmt.Errorf("%v in type %q", r, s)
			}
		}()
		te = p.typ()
	}()
	return te, perr
}

type macroDef struct {
	name   string
	params []string
	body   string
}

// macro name(a, b) = text
func parseMacro(rest string) (*macroDef, error) {
	eqi := strings.Index(rest, " = ")
	lp := strings.Index(rest, "(")
	rp := strings.Index(rest, ")")
	if eqi < 0 || lp < 0 || rp < lp || rp > eqi {
		return nil, fmt.Errorf("macro name(params) = text")
	}
	md := &macroDef{name: strings.TrimSpace(rest[:lp]), body: strings.TrimSpace(rest[eqi+3:])}
	for _, p := range strings.Split(rest[lp+1:rp], ",") {
		if p = strings.TrimSpace(p); p != "" {
			md.params = append(md.params, p)
		}
	}
	return md, nil
}

func isIdentByte(b byte) bool {
	return b == '_' || b >= '0' && b <= '9' || b >= 'a' && b <= 'z' || b >= 'A' && b <= 'Z'
}

// expandMacros replaces name(args) by the macro body with parameters substituted (textually, whole identifiers).
func expandMacros(text string, macros map[string]*macroDef) string {
	for iter := 0; iter < 20; iter++ {
		changed := false
		for name, md := range macros {
			for from := 0; ; {
				i := strings.Index(text[from:], name+"(")
				if i < 0 {
					break
				}
				i += from
				if i > 0 && (isIdentByte(text[i-1]) || text[i-1] == '.') {
					from = i + 1
					continue
				}
				// find matching paren
				j := i + len(name) + 1
				depth := 1
				var args []string
				argStart := j
				for ; j < len(text) && depth > 0; j++ {
					switch text[j] {
					case '(', '[':
						depth++
					case ')', ']':
						depth--
						if depth == 0 {
							args = append(args, strings.TrimSpace(text[argStart:j]))
						}
					case ',':
						if depth == 1 {
							args = append(args, strings.TrimSpace(text[argStart:j]))
							argStart = j + 1
						}
					}
				}
				if len(args) == 1 && args[0] == "" {
					args = nil
				}
				if depth != 0 || len(args) != len(md.params) {
					from = i + 1
					continue
				}
				body := md.body
				for k, p := range md.params {
					body = replaceIdent(body, p, args[k])
				}
				text = text[:i] + "(" + body + ")" + text[j:]
				changed = true
				from = i + len(body) + 2
			}
		}
		if !changed {
			break
		}
	}
	return text
}

func replaceIdent(s, id, with string) string {
	var sb strings.Builder
	for i := 0; i < len(s); {
		if strings.HasPrefix(s[i:], id) && (i == 0 || !isIdentByte(s[i-1])) && (i+len(id) >= len(s) || !isIdentByte(s[i+len(id)])) {
			sb.WriteString(with)
			i += len(id)
			continue
		}
		sb.WriteByte(s[i])
		i++
	}
	return sb.String()
}
