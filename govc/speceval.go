package main

// Type-directed evaluation of contract expressions into SMT terms.

import (
	"fmt"
	"go/constant"
	"go/token"
	"go/types"
	"sort"
	"strconv"
	"strings"

	"golang.org/x/tools/go/ssa"
)

type evalEnv struct {
	vars   map[string]*Val
	st     *State
	old    *State
	result []*Val
	resNm  []string
	pkg    *types.Package
	bound  map[string]*Val // quantified variables
	inOld  bool
	depth  int
	callee bool // a callee's contract evaluated at a call site: identifiers never resolve to the caller's locals
}

func (e *evalEnv) with(st *State) *evalEnv {
	n := *e
	n.st = st
	return &n
}

type evalErr string

func (c *FnCtx) efail(f string, a ...any) { panic(evalErr(fmt.Sprintf(f, a...))) }

// evalSpec evaluates to a value; errors are reported as unsupported contract.
func (c *FnCtx) evalSpec(e specExpr, env *evalEnv) (v *Val, err error) {
	defer func() {
		if r := recover(); r != nil {
			if ee, ok := r.(evalErr); ok {
				err = fmt.Errorf("%s", string(ee))
				return
			}
			panic(r)
		}
	}()
	return c.ev(e, env), nil
}

func (c *FnCtx) evalBool(e specExpr, env *evalEnv) (Term, error) {
	v, err := c.evalSpec(e, env)
	if err != nil {
		return "", err
	}
	if v.T == nil || c.sortOf(v.T) != "Bool" {
		return "", fmt.Errorf("expression is not boolean")
	}
	return v.S, nil
}

var boolT = types.Typ[types.Bool]
var intT = types.Typ[types.Int]

func (c *FnCtx) findPkg(name string, from *types.Package) *types.Package {
	if from != nil {
		if from.Name() == name {
			return from
		}
		for _, imp := range from.Imports() {
			if imp.Name() == name {
				return imp
			}
		}
	}
	var found *types.Package
	for _, p := range c.L.tpkgs {
		if p.Name() == name {
			if found == nil || len(p.Path()) < len(found.Path()) {
				found = p
			}
		}
	}
	return found
}

func (c *FnCtx) resolveType(te *typeExpr, pkg *types.Package) types.Type {
	var T types.Type
	if te.mapK != nil {
		T = types.NewMap(c.resolveType(te.mapK, pkg), c.resolveType(te.elem, pkg))
	} else if te.slice {
		T = types.NewSlice(c.resolveType(te.elem, pkg))
	} else if te.pkg != "" {
		p := c.findPkg(te.pkg, pkg)
		if p == nil {
			c.efail("unknown package %s", te.pkg)
		}
		o := p.Scope().Lookup(te.name)
		if o == nil {
			c.efail("unknown type %s.%s", te.pkg, te.name)
		}
		T = o.Type()
	} else {
		if o := types.Universe.Lookup(te.name); o != nil {
			T = o.Type()
		} else if pkg != nil && pkg.Scope().Lookup(te.name) != nil {
			T = pkg.Scope().Lookup(te.name).Type()
		} else if te.name == "any" {
			T = types.NewInterfaceType(nil, nil)
		} else {
			c.efail("unknown type %s", te.name)
		}
	}
	for i := 0; i < te.ptr; i++ {
		T = types.NewPointer(T)
	}
	return T
}

func isUntyped(v *Val) bool { return v.T == nil }

func (c *FnCtx) isIface(t types.Type) bool {
	if t == nil {
		return false
	}
	_, ok := types.Unalias(t).Underlying().(*types.Interface)
	return ok
}

// unify makes two operands comparable.
func (c *FnCtx) unify(a, b *Val) (Term, Term) {
	as, bs := a.S, b.S
	if a.T == nil && b.T != nil && a.S == "nil" {
		return c.zero(b.T), bs
	}
	if b.T == nil && a.T != nil && b.S == "nil" {
		return as, c.zero(a.T)
	}
	if a.T != nil && b.T != nil {
		if c.isIface(a.T) && !c.isIface(b.T) {
			return as, c.box(b)
		}
		if c.isIface(b.T) && !c.isIface(a.T) {
			return c.box(a), bs
		}
	}
	return as, bs
}

func (c *FnCtx) ev(e specExpr, env *evalEnv) *Val {
	switch x := e.(type) {
	case *eInt:
		return &Val{T: nil, S: x.v}
	case *eStr:
		s, err := strconv.Unquote(`"` + x.v + `"`)
		if err != nil {
			s = x.v
		}
		return c.mk(types.Typ[types.String], c.strLit(s))
	case *eIdent:
		return c.evIdent(x, env)
	case *eSel:
		return c.evSel(x, env)
	case *eIndex:
		return c.evIndex(x, env)
	case *eCall:
		return c.evCall(x, env)
	case *eUnary:
		return c.evUnary(x, env)
	case *eBinary:
		return c.evBinary(x, env)
	case *eQuant:
		return c.evQuant(x, env)
	case *eTypeAssert:
		v := c.ev(x.x, env)
		T := c.resolveType(x.typ, env.pkg)
		if !c.isIface(v.T) {
			c.efail("type assertion on non-interface")
		}
		return c.mk(T, c.unbox(v.S, T))
	case *eSlice:
		v := c.ev(x.x, env)
		lo := "0"
		if x.lo != nil {
			lo = c.ev(x.lo, env).S
		}
		hi := app("s_len", v.S)
		if x.hi != nil {
			hi = c.ev(x.hi, env).S
		}
		return c.mk(v.T, app("mk_slice", app("s_arr", v.S), app("+", app("s_off", v.S), lo), app("-", hi, lo), app("-", app("s_cap", v.S), lo)))
	}
	c.efail("unsupported expression %T", e)
	return nil
}

func (c *FnCtx) evIdent(x *eIdent, env *evalEnv) *Val {
	switch x.name {
	case "nil":
		return &Val{T: nil, S: "nil"}
	case "true", "false":
		return c.mk(boolT, x.name)
	case "result":
		if len(env.result) == 0 {
			if c.curLoop == nil {
				c.efail("result not available here")
			}
			// in a loop clause `result` can only mean a local variable of that name
			break
		}
		return env.result[0]
	}
	if v, ok := env.bound[x.name]; ok {
		return v
	}
	if strings.HasPrefix(x.name, "result") && len(x.name) == 7 && x.name[6] >= '0' && x.name[6] <= '9' {
		i := int(x.name[6] - '0')
		if i < len(env.result) {
			return env.result[i]
		}
		c.efail("%s not available here", x.name)
	}
	for i, n := range env.resNm {
		if n == x.name && i < len(env.result) {
			return env.result[i]
		}
	}
	if v, ok := env.vars[x.name]; ok {
		return v
	}
	if v, ok := c.ghosts[x.name]; ok {
		return v
	}
	if env.callee || env.depth > 0 {
		// only parameters, results, ghosts and package-level names exist in a callee's contract
		if v := c.pkgLevelIdent(x, env); v != nil {
			return v
		}
		c.efail("unknown identifier %s", x.name)
	}
	// inside a loop clause: the loop's own phi of that name, or the loop-invariant value the name has in the loop
	if c.fn != nil && env.vars != nil && c.curLoop != nil {
		for _, ins := range c.curLoop.header.Instrs {
			if phi, ok := ins.(*ssa.Phi); ok && phi.Comment == x.name {
				if r, ok := c.regs[phi]; ok {
					return r
				}
			}
		}
		var outside []ssa.Value
		for b := range c.curLoop.blocks {
			for _, ins := range b.Instrs {
				d, ok := ins.(*ssa.DebugRef)
				if !ok || d.IsAddr || d.Object() == nil || d.Object().Name() != x.name {
					continue
				}
				if di, isI := d.X.(ssa.Instruction); isI && c.curLoop.blocks[di.Block()] {
					continue
				}
				dup := false
				for _, o := range outside {
					if o == d.X {
						dup = true
					}
				}
				if !dup {
					outside = append(outside, d.X)
				}
			}
		}
		if len(outside) == 1 {
			if r, ok := c.regs[outside[0]]; ok {
				return r
			}
			if _, isC := outside[0].(*ssa.Const); isC {
				return c.val(env.st, outside[0])
			}
		}
		// otherwise: the definition of the variable that reaches the loop head, i.e. the
		// value named x whose defining block is the closest dominator of the header
		var best ssa.Value
		bestDepth := -2
		consider := func(v ssa.Value, at *ssa.BasicBlock) {
			b := at
			if ins, ok := v.(ssa.Instruction); ok {
				b = ins.Block()
			} else if _, isC := v.(*ssa.Const); !isC {
				return
			}
			// (a constant is "defined" where the variable is assigned it: the block of the DebugRef)
			if b == nil || b == c.curLoop.header || !b.Dominates(c.curLoop.header) {
				return
			}
			d := 0
			for x := b; x != nil; x = x.Idom() {
				d++
			}
			if d > bestDepth {
				bestDepth, best = d, v
			}
		}
		for _, b := range c.fn.Blocks {
			for _, ins := range b.Instrs {
				if phi, ok := ins.(*ssa.Phi); ok && phi.Comment == x.name {
					consider(phi, nil)
				}
				if d, ok := ins.(*ssa.DebugRef); ok && !d.IsAddr && d.Object() != nil && d.Object().Name() == x.name {
					consider(d.X, d.Block())
				}
			}
		}
		if best != nil {
			if r, ok := c.regs[best]; ok {
				return r
			}
			if _, isC := best.(*ssa.Const); isC {
				return c.val(c.state(env), best)
			}
		}
	}
	// source-level local variable names (DebugRef): only unambiguous ones
	if c.fn != nil && env.vars != nil {
		// a local that only ever holds one constant (never reassigned): its value
		if vs := c.names[x.name]; len(vs) >= 1 {
			var k0 *ssa.Const
			same := true
			for _, v := range vs {
				k, isC := v.(*ssa.Const)
				if !isC || (k0 != nil && !(types.Identical(k.Type(), k0.Type()) && ((k.Value == nil && k0.Value == nil) || (k.Value != nil && k0.Value != nil && constant.Compare(k.Value, token.EQL, k0.Value))))) {
					same = false
					break
				}
				if k0 == nil {
					k0 = k
				}
			}
			if same && k0 != nil {
				return c.val(c.state(env), k0)
			}
		}
		if vs := c.names[x.name]; len(vs) == 1 {
			if r, ok := c.regs[vs[0]]; ok {
				return r
			}
		} else if len(vs) > 1 {
			// a loop variable usually maps to one phi plus its updates: prefer the phi
			var phis []ssa.Value
			for _, v := range vs {
				if _, ok := v.(*ssa.Phi); ok {
					phis = append(phis, v)
				}
			}
			if len(phis) == 1 {
				if r, ok := c.regs[phis[0]]; ok {
					return r
				}
			}
		}
		// SSA register names t12
		for _, b := range c.fn.Blocks {
			for _, ins := range b.Instrs {
				if v, ok := ins.(ssa.Value); ok && v.Name() == x.name {
					if r, ok := c.regs[v]; ok {
						return r
					}
				}
			}
		}
	}
	// address-taken local variable (captured by a closure, ...): its current content
	if c.fn != nil && env.vars != nil {
		if vs := c.addrNames[x.name]; len(vs) == 1 {
			if r, ok := c.regs[vs[0]]; ok {
				return c.load(c.state(env), r)
			}
		}
	}
	// package-level constants and variables
	if env.pkg != nil {
		if o := env.pkg.Scope().Lookup(x.name); o != nil {
			if k, ok := o.(*types.Const); ok {
				return c.constOf(k)
			}
			if g, ok := o.(*types.Var); ok {
				if sp := c.L.prog.Package(env.pkg); sp != nil {
					if gv, ok := sp.Members[g.Name()].(*ssa.Global); ok {
						return c.load(c.state(env), c.mk(gv.Type(), c.globalRef(gv)))
					}
				}
			}
		}
	}
	// a local that the function still declares but that has no SSA value here (dead after an
	// edit: assigned, never read): the contract talks about an untracked variable -- any value
	if c.fn != nil && env.vars != nil {
		for _, b := range c.fn.Blocks {
			for _, ins := range b.Instrs {
				if d, ok := ins.(*ssa.DebugRef); ok && d.Object() != nil && d.Object().Name() == x.name {
					if _, isVar := d.Object().(*types.Var); isVar {
						c.unsupported("note: local %s has no value at this point (dead variable?): treated as arbitrary", x.name)
						return c.freshOf(c.state(env), d.Object().Type(), "dead."+x.name)
					}
				}
			}
		}
	}
	c.efail("unknown identifier %s", x.name)
	return nil
}

// pkgLevelIdent resolves a package-level constant or variable of env.pkg (nil if none).
func (c *FnCtx) pkgLevelIdent(x *eIdent, env *evalEnv) *Val {
	if env.pkg == nil {
		return nil
	}
	o := env.pkg.Scope().Lookup(x.name)
	if o == nil {
		return nil
	}
	if k, ok := o.(*types.Const); ok {
		return c.constOf(k)
	}
	if g, ok := o.(*types.Var); ok {
		if sp := c.L.prog.Package(env.pkg); sp != nil {
			if gv, ok := sp.Members[g.Name()].(*ssa.Global); ok {
				return c.load(c.state(env), c.mk(gv.Type(), c.globalRef(gv)))
			}
		}
	}
	return nil
}

func (c *FnCtx) constOf(k *types.Const) *Val {
	switch k.Val().Kind() {
	case constant.Int:
		return c.mk(k.Type(), bigLit(k.Val().ExactString()))
	case constant.Bool:
		return c.mk(k.Type(), fmt.Sprint(constant.BoolVal(k.Val())))
	case constant.String:
		return c.mk(k.Type(), c.strLit(constant.StringVal(k.Val())))
	}
	c.efail("constant kind")
	return nil
}

func (c *FnCtx) state(env *evalEnv) *State {
	if env.inOld && env.old != nil {
		return env.old
	}
	return env.st
}

// fieldOf selects a field (by index path) from a pointer-to-struct or struct value.
func (c *FnCtx) fieldOf(v *Val, idx []int, env *evalEnv) *Val {
	cur := v
	for _, i := range idx {
		T := types.Unalias(cur.T)
		if p, ok := T.Underlying().(*types.Pointer); ok {
			s, ok := isStruct(p.Elem())
			if !ok {
				c.efail("field of non-struct pointer")
			}
			f := s.Field(i)
			if cur.LV != nil && cur.S == "" {
				lv := *cur.LV
				lv.Path = append(append([]int{}, lv.Path...), i)
				lv.T = f.Type()
				cur = c.mk(f.Type(), c.lvLoad(c.state(env), &lv))
				continue
			}
			if _, inl := isStruct(f.Type()); inl {
				// value of an inline struct: keep as pointer to it for further selection
				cur = c.mk(types.NewPointer(f.Type()), c.subRef(p.Elem(), f.Name(), cur.S))
				continue
			}
			h := c.heapGet(c.state(env), fieldHeap(p.Elem(), f.Name()), "(Array Int "+c.sortOf(f.Type())+")")
			cur = c.mk(f.Type(), app("select", h, cur.S))
			c.typeAssume(c.state(env), cur)
			continue
		}
		s, ok := isStruct(T)
		if !ok {
			c.efail("field selection on %s", T)
		}
		cur = c.mk(s.Field(i).Type(), app(c.fieldSel(c.sortOf(T), s, i), cur.S))
	}
	return cur
}

func (c *FnCtx) evSel(x *eSel, env *evalEnv) *Val {
	// package-qualified constant
	if id, ok := x.x.(*eIdent); ok {
		if _, isVar := env.vars[id.name]; !isVar {
			if _, isB := env.bound[id.name]; !isB {
				if _, isG := c.ghosts[id.name]; !isG && len(c.names[id.name]) == 0 {
					if p := c.findPkg(id.name, env.pkg); p != nil {
						o := p.Scope().Lookup(x.name)
						if k, ok := o.(*types.Const); ok {
							return c.constOf(k)
						}
						if g, ok := o.(*types.Var); ok {
							if sp := c.L.prog.Package(p); sp != nil {
								if gv, ok := sp.Members[g.Name()].(*ssa.Global); ok {
									// value of the global
									ref := c.mk(gv.Type(), c.globalRef(gv))
									return c.load(c.state(env), ref)
								}
							}
						}
						c.efail("unknown %s.%s", id.name, x.name)
					}
				}
			}
		}
	}
	v := c.ev(x.x, env)
	if v.T == nil {
		c.efail("selector on untyped value")
	}
	obj, idx, _ := types.LookupFieldOrMethod(v.T, true, env.pkg, x.name)
	if obj == nil {
		// unexported field of another package
		obj, idx = lookupFieldAnyPkg(v.T, x.name)
	}
	if fld, ok := obj.(*types.Var); ok && fld.IsField() {
		return c.fieldOf(v, idx, env)
	}
	c.efail("unknown field %s of %s", x.name, v.T)
	return nil
}

func lookupFieldAnyPkg(T types.Type, name string) (types.Object, []int) {
	t := types.Unalias(T)
	if p, ok := t.Underlying().(*types.Pointer); ok {
		t = p.Elem()
	}
	s, ok := t.Underlying().(*types.Struct)
	if !ok {
		return nil, nil
	}
	for i := 0; i < s.NumFields(); i++ {
		if s.Field(i).Name() == name {
			return s.Field(i), []int{i}
		}
	}
	for i := 0; i < s.NumFields(); i++ {
		if s.Field(i).Embedded() {
			if o, idx := lookupFieldAnyPkg(s.Field(i).Type(), name); o != nil {
				return o, append([]int{i}, idx...)
			}
		}
	}
	return nil, nil
}

func (c *FnCtx) evIndex(x *eIndex, env *evalEnv) *Val {
	v := c.ev(x.x, env)
	i := c.ev(x.i, env)
	switch u := types.Unalias(v.T).Underlying().(type) {
	case *types.Slice:
		hn, hs := c.elemHeap(u.Elem())
		h := c.heapGet(c.state(env), hn, hs)
		r := c.mk(u.Elem(), c.at(h, hs, v.S, i.S))
		c.typeAssume(c.state(env), r)
		return r
	case *types.Map:
		ks := i.S
		if i.T != nil {
			ks = c.coerce(i, u.Key())
		} else if i.S == "nil" {
			ks = c.zero(u.Key())
		}
		val, _ := c.mapGet(c.state(env), v.T, v.S, ks)
		r := c.mk(u.Elem(), val)
		c.typeAssume(c.state(env), r)
		return r
	case *types.Array:
		return c.mk(u.Elem(), app("select", v.S, i.S))
	}
	c.efail("index on %s", v.T)
	return nil
}

func (c *FnCtx) evUnary(x *eUnary, env *evalEnv) *Val {
	switch x.op {
	case "!":
		v := c.ev(x.x, env)
		return c.mk(boolT, not(v.S))
	case "-":
		v := c.ev(x.x, env)
		return &Val{T: v.T, S: app("-", v.S)}
	case "&":
		// address of an inline struct field: &x.Call
		if sel, ok := x.x.(*eSel); ok {
			b := c.ev(sel.x, env)
			if s, T, ok := isStructPtr(b.T); ok {
				for i := 0; i < s.NumFields(); i++ {
					if s.Field(i).Name() == sel.name {
						if _, inl := isStruct(s.Field(i).Type()); inl {
							return c.mk(types.NewPointer(s.Field(i).Type()), c.subRef(T, sel.name, b.S))
						}
					}
				}
			}
		}
		c.efail("& only supported on inline struct fields")
	case "*":
		v := c.ev(x.x, env)
		return c.load(c.state(env), v)
	}
	c.efail("unary %s", x.op)
	return nil
}

func (c *FnCtx) evBinary(x *eBinary, env *evalEnv) *Val {
	a := c.ev(x.x, env)
	switch x.op {
	case "&&":
		return c.mk(boolT, and(a.S, c.ev(x.y, env).S))
	case "||":
		return c.mk(boolT, or(a.S, c.ev(x.y, env).S))
	case "==>":
		return c.mk(boolT, implies(a.S, c.ev(x.y, env).S))
	case "<==>":
		return c.mk(boolT, eq(a.S, c.ev(x.y, env).S))
	}
	b := c.ev(x.y, env)
	as, bs := c.unify(a, b)
	T := a.T
	if T == nil {
		T = b.T
	}
	switch x.op {
	case "==":
		return c.mk(boolT, eq(as, bs))
	case "!=":
		return c.mk(boolT, not(eq(as, bs)))
	case "<", "<=", ">", ">=":
		if T != nil && c.sortOf(T) == "Str" {
			switch x.op {
			case "<":
				return c.mk(boolT, app("str_lt", as, bs))
			case ">":
				return c.mk(boolT, app("str_lt", bs, as))
			case "<=":
				return c.mk(boolT, not(app("str_lt", bs, as)))
			default:
				return c.mk(boolT, not(app("str_lt", as, bs)))
			}
		}
		return c.mk(boolT, app(x.op, as, bs))
	case "+":
		if T != nil && c.sortOf(T) == "Str" {
			r := app("str_concat", as, bs)
			c.assume(eq(app("str_len", r), app("+", app("str_len", as), app("str_len", bs))))
			return c.mk(T, r)
		}
		return &Val{T: T, S: app("+", as, bs)}
	case "-", "*":
		return &Val{T: T, S: app(x.op, as, bs)}
	case "|", "&":
		// bit operations are uninterpreted (same symbol as the executor uses)
		srt := "Int"
		if T != nil {
			srt = c.sortOf(T)
		}
		f := "bop." + sym(x.op) + "." + sym(srt)
		c.declare(f, fmt.Sprintf("(declare-fun %s (%s %s) %s)", f, srt, srt, srt))
		return &Val{T: T, S: app(f, as, bs)}
	case "/":
		return &Val{T: T, S: app("div", as, bs)}
	case "%":
		return &Val{T: T, S: app("mod", as, bs)}
	}
	c.efail("binary %s", x.op)
	return nil
}

func (c *FnCtx) evQuant(x *eQuant, env *evalEnv) *Val {
	n := *env
	n.bound = map[string]*Val{}
	for k, v := range env.bound {
		n.bound[k] = v
	}
	var binders []string
	var guards []Term
	for _, qv := range x.vars {
		T := c.resolveType(qv.typ, env.pkg)
		c.nfresh++
		nm := fmt.Sprintf("q.%s.%d", sym(qv.name), c.nfresh)
		n.bound[qv.name] = c.mk(T, nm)
		binders = append(binders, fmt.Sprintf("(%s %s)", nm, c.sortOf(T)))
		if _, ok := isIntT(T); ok {
			guards = append(guards, intRange(T, nm))
		}

	}
	c.qDepth++
	c.qFacts = append(c.qFacts, nil)
	var body *Val
	func() {
		defer func() {
			c.qDepth--
			facts := c.qFacts[len(c.qFacts)-1]
			c.qFacts = c.qFacts[:len(c.qFacts)-1]
			// side facts (type ranges of loaded values and call results, instantiated
			// callee postconditions, ...) hold for EVERY value of the bound variables:
			// they are hoisted as separate universally quantified assumptions instead of
			// weakening the formula with guards it could never discharge.
			if len(facts) > 0 {
				c.assume(fmt.Sprintf("(forall (%s) %s)", strings.Join(binders, " "), and(facts...)))
			}
		}()
		body = c.ev(x.body, &n)
	}()
	g := and(guards...)
	inner := implies(g, body.S)
	if !x.forall {
		inner = and(g, body.S)
	}
	if pat := inferPatterns(body.S, binders); pat != "" {
		inner = "(! " + inner + " " + pat + ")"
	}
	if x.forall {
		return c.mk(boolT, fmt.Sprintf("(forall (%s) %s)", strings.Join(binders, " "), inner))
	}
	return c.mk(boolT, fmt.Sprintf("(exists (%s) %s)", strings.Join(binders, " "), inner))
}

// funcSym declares the uninterpreted symbol of a pure function / observer.
func (c *FnCtx) funcSym(full string, argSorts []string, resSort string, idx int) string {
	n := "fn." + sym(full)
	if idx >= 0 {
		n = fmt.Sprintf("%s.r%d", n, idx)
	}
	if len(n) > 120 {
		n = n[:120]
	}
	if _, ok := c.funUsed[n]; !ok {
		c.funUsed[n] = full
		c.declare(n, fmt.Sprintf("(declare-fun %s (%s) %s)", n, strings.Join(argSorts, " "), resSort))
	}
	return n
}

// applyPure applies the uninterpreted function of a types.Func to arguments.
func (c *FnCtx) applyPure(st *State, full string, sig *types.Signature, recvT types.Type, args []*Val) *Val {
	var sorts []string
	var ts []Term
	ptypes := []types.Type{}
	if recvT != nil {
		ptypes = append(ptypes, recvT)
	}
	for i := 0; i < sig.Params().Len(); i++ {
		ptypes = append(ptypes, sig.Params().At(i).Type())
	}
	for i, a := range args {
		var pt types.Type
		if i < len(ptypes) {
			pt = ptypes[i]
		} else if sig.Variadic() && len(ptypes) > 0 {
			c.efail("variadic pure call %s", full)
		}
		if pt == nil {
			pt = a.T
		}
		sorts = append(sorts, c.sortOf(pt))
		if a.T == nil {
			if a.S == "nil" {
				ts = append(ts, c.zero(pt))
			} else {
				ts = append(ts, a.S)
			}
		} else {
			ts = append(ts, c.coerce(a, pt))
		}
	}
	res := sig.Results()
	if res.Len() == 0 {
		return &Val{T: res}
	}
	if res.Len() == 1 {
		f := c.funcSym(full, sorts, c.sortOf(res.At(0).Type()), -1)
		var t Term
		if len(ts) == 0 {
			t = f
		} else {
			t = app(f, ts...)
		}
		v := c.mk(res.At(0).Type(), t)
		c.pureResultFacts(f, sorts, res.At(0).Type())
		return v
	}
	out := &Val{T: res}
	for i := 0; i < res.Len(); i++ {
		f := c.funcSym(full, sorts, c.sortOf(res.At(i).Type()), i)
		v := c.mk(res.At(i).Type(), app(f, ts...))
		c.pureResultFacts(f, sorts, res.At(i).Type())
		out.Tup = append(out.Tup, v)
	}
	return out
}

// pureResultFacts states once per function symbol that its result is a value of
// its Go type (range of integers, well-formed slice header, ...), for all arguments.
func (c *FnCtx) pureResultFacts(f string, sorts []string, T types.Type) {
	key := "purefacts:" + f
	if c.assumed[key] {
		return
	}
	c.assumed[key] = true
	var bs, xs []string
	for i, s := range sorts {
		bs = append(bs, fmt.Sprintf("(px%d %s)", i, s))
		xs = append(xs, fmt.Sprintf("px%d", i))
	}
	t := f
	if len(xs) > 0 {
		t = app(f, xs...)
	}
	// collect the type facts of a term of type T
	saveA, saveQ, saveF := c.asserts, c.qDepth, c.qFacts
	c.asserts = nil
	c.qDepth = 0
	c.typeAssume(nil, c.mk(T, t))
	facts := c.asserts
	c.asserts, c.qDepth, c.qFacts = saveA, saveQ, saveF
	if len(facts) == 0 {
		return
	}
	if len(xs) == 0 {
		c.asserts = append(c.asserts, and(facts...))
		return
	}
	c.asserts = append(c.asserts, fmt.Sprintf("(forall (%s) (! %s :pattern (%s)))", strings.Join(bs, " "), and(facts...), t))
}

func (c *FnCtx) evCall(x *eCall, env *evalEnv) *Val {
	if id, ok := x.fun.(*eIdent); ok {
		switch id.name {
		case "len":
			v := c.ev(x.args[0], env)
			switch types.Unalias(v.T).Underlying().(type) {
			case *types.Slice:
				return c.mk(intT, app("s_len", v.S))
			case *types.Basic:
				return c.mk(intT, app("str_len", v.S))
			case *types.Map:
				return c.mk(intT, c.mapLen(c.state(env), v))
			}
			c.efail("len of %s", v.T)
		case "cap":
			v := c.ev(x.args[0], env)
			return c.mk(intT, app("s_cap", v.S))
		case "old":
			n := *env
			n.inOld = true
			return c.ev(x.args[0], &n)
		case "istype":
			v := c.ev(x.args[0], env)
			T := c.resolveType(x.args[1].(*eType).typ, env.pkg)
			if !c.isIface(v.T) {
				c.efail("istype on non-interface %s", v.T)
			}
			if c.isIface(T) {
				if n, ok := types.Unalias(T).(*types.Named); ok {
					return c.mk(boolT, and(not(eq(app("itag", v.S), "0")), app(c.implPred(n), app("itag", v.S))))
				}
				c.efail("istype with unnamed interface")
			}
			return c.mk(boolT, eq(app("itag", v.S), intLit(int64(c.u.tagOf(T)))))
		case "zero":
			T := c.resolveType(x.args[0].(*eType).typ, env.pkg)
			return c.mk(T, c.zero(T))
		case "has":
			m := c.ev(x.args[0], env)
			k := c.ev(x.args[1], env)
			K, _ := mapKV(m.T)
			ks := k.S
			if k.T != nil {
				ks = c.coerce(k, K)
			}
			_, has := c.mapGet(c.state(env), m.T, m.S, ks)
			return c.mk(boolT, has)
		case "atexit", "passed", "athead":
			// atexit(L, e): e evaluated in the state in which loop L was last left (within
			// the current pass over the enclosing code); passed(L): that exit was taken;
			// athead(L, e): e in the state at the head of loop L (start of the iteration)
			var target *loopInfo
			switch a := x.args[0].(type) {
			case *eInt:
				n, _ := strconv.Atoi(a.v)
				for _, li := range c.loopOrd {
					if li.ordinal == n {
						target = li
					}
				}
			case *eIdent:
				target = c.loopOfVar(a.name)
			}
			if target == nil {
				c.efail("%s(%s, ...): no such loop", id.name, exprText(x.args[0]))
			}
			var snap *State
			if id.name == "athead" {
				snap = c.ss().headSt[target]
			} else {
				snap = c.exitSt[target]
			}
			if snap == nil {
				// the loop has not been left on any path leading here
				if id.name == "passed" {
					return c.mk(boolT, "false")
				}
				snap = c.state(env) // value irrelevant: to be guarded by passed(L)
			}
			if id.name == "passed" {
				return c.mk(boolT, snap.pc)
			}
			if len(x.args) != 2 {
				c.efail("%s(L, expr)", id.name)
			}
			if id.name == "athead" {
				// a bare local with a phi at the loop head: its value at the start of the iteration
				if lv, ok := x.args[1].(*eIdent); ok {
					for _, ins := range target.header.Instrs {
						if phi, ok := ins.(*ssa.Phi); ok && phi.Comment == lv.name {
							if c.headPhis != nil {
								if r, ok := c.headPhis[phi]; ok && r != nil {
									return r
								}
							}
							if r, ok := c.regs[phi]; ok {
								return r
							}
						}
					}
				}
			}
			n := *env
			n.st = snap
			return c.ev(x.args[1], &n)
		case "atback":
			// atback(x): the value of local x flowing back into the head of the loop whose
			// body clause is being checked (x has a phi at that head) -- "x at the end of
			// this iteration"
			lv, ok := x.args[0].(*eIdent)
			if len(x.args) != 1 || !ok || c.curLoop == nil || c.backFrom == nil {
				c.efail("atback(x): only for a local variable, in a `loop L body` clause")
			}
			for _, ins := range c.curLoop.header.Instrs {
				if phi, ok := ins.(*ssa.Phi); ok && phi.Comment == lv.name {
					for i, p := range c.curLoop.header.Preds {
						if p == c.backFrom {
							return c.val(c.state(env), phi.Edges[i])
						}
					}
				}
			}
			c.efail("atback(%s): no phi of that name at the loop head", lv.name)
			return nil
		case "iter":
			var target *loopInfo
			switch a := x.args[0].(type) {
			case *eInt:
				n, _ := strconv.Atoi(a.v)
				for _, li := range c.loopOrd {
					if li.ordinal == n {
						target = li
					}
				}
			case *eIdent:
				target = c.loopOfVar(a.name)
			}
			if target == nil || target.rangeIx == nil || c.regs[target.rangeIx] == nil {
				c.efail("iter(%s): no range-index loop", exprText(x.args[0]))
			}
			return c.mk(intT, app("+", c.regs[target.rangeIx].S, "1"))
		case "called", "retof":
			return c.evCalled(x, env)
		case "visited":
			// visited(loopvar, key): key was already produced by the map iteration of that loop
			var target *loopInfo
			switch a := x.args[0].(type) {
			case *eInt:
				n, _ := strconv.Atoi(a.v)
				for _, li := range c.loopOrd {
					if li.ordinal == n {
						target = li
					}
				}
			case *eIdent:
				target = c.loopOfVar(a.name)
			}
			if target == nil || target.nextIt == nil {
				c.efail("visited(%s, ...): no map-range loop", exprText(x.args[0]))
			}
			rg, ok := target.nextIt.Iter.(*ssa.Range)
			if !ok {
				c.efail("visited: iterator is not a range")
			}
			K, _ := mapKV(rg.X.Type())
			k := c.ev(x.args[1], env)
			ks := k.S
			if k.T != nil {
				ks = c.coerce(k, K)
			}
			srt := "(Array " + c.sortOf(K) + " Bool)"
			return c.mk(boolT, app("select", c.heapGet(c.state(env), itHeap(rg), srt), ks))
		case "ite":
			cnd := c.ev(x.args[0], env)
			a := c.ev(x.args[1], env)
			b := c.ev(x.args[2], env)
			as, bs := c.unify(a, b)
			T := a.T
			if T == nil {
				T = b.T
			}
			return &Val{T: T, S: ite(cnd.S, as, bs)}
		case "ref":
			// ref(x): the object identity behind a pointer or interface value
			v := c.ev(x.args[0], env)
			if c.isIface(v.T) {
				return c.mk(intT, app("ival", v.S))
			}
			if v.T != nil {
				if _, isSl := types.Unalias(v.T).Underlying().(*types.Slice); isSl {
					return c.mk(intT, app("s_arr", v.S)) // slice: identity of its backing array
				}
			}
			return c.mk(intT, v.S)
		case "tag":
			v := c.ev(x.args[0], env)
			return c.mk(intT, app("itag", v.S))
		case "preserved":
			// preserved(<heap designator>): every object that existed at function entry
			// has the same content in that heap as at entry
			d := strings.TrimSpace(exprTextFull(x.args[0]))
			var hs map[string]bool
			if d == "all" {
				// every heap the function has touched so far
				hs = map[string]bool{}
				for k := range c.state(env).heaps {
					if !strings.HasPrefix(k, "IT|") {
						hs[k] = true
					}
				}
			} else {
				var err error
				hs, err = c.heapDesignators(env.pkg, []string{d})
				if err != nil {
					c.efail("preserved(%s): %v", d, err)
				}
			}
			var conj []Term
			var ks []string
			for k := range hs {
				ks = append(ks, k)
			}
			sort.Strings(ks)
			for _, k := range ks {
				srt := c.heapSort[k]
				cur := c.heapGet(c.state(env), k, srt)
				init := c.heapGet(&State{heaps: map[string]Term{}}, k, srt)
				if cur == init {
					continue
				}
				conj = append(conj, fmt.Sprintf("(forall ((r Int)) (! (=> (< r %s) (= (select %s r) (select %s r))) :pattern ((select %s r))))", c.entry.nextRef, cur, init, cur))
			}
			return c.mk(boolT, and(conj...))
		case "isfresh":
			// isfresh(s): the backing array of slice s was allocated during this call (or s is nil)
			v := c.ev(x.args[0], env)
			pre := c.entry.nextRef
			if env.old != nil && env.old.nextRef != "" {
				pre = env.old.nextRef
			}
			r := v.S // maps, pointers: the reference itself
			if v.T != nil {
				if _, isSl := types.Unalias(v.T).Underlying().(*types.Slice); isSl {
					r = app("s_arr", v.S)
				}
			}
			return c.mk(boolT, or(eq(r, "0"), and(app(">=", r, pre), app("<", r, env.st.nextRef))))
		case "fresh":
			// fresh(p): p was allocated during this call
			v := c.ev(x.args[0], env)
			pre := c.entry.nextRef
			if env.old != nil && env.old.nextRef != "" {
				pre = env.old.nextRef // in a callee's contract applied at a call site: since the call
			}
			return c.mk(boolT, and(app(">=", v.S, pre), app("<", v.S, env.st.nextRef)))
		case "allocated":
			v := c.ev(x.args[0], env)
			return c.mk(boolT, app("<", v.S, c.state(env).nextRef))
		}
		// spec functions
		if c.specs != nil && env.pkg != nil {
			if sf := c.specs.specFn[env.pkg.Path()][id.name]; sf != nil {
				return c.evSpecFn(sf, x, env)
			}
		}
		if c.specs != nil {
			if sf := c.specs.specFn["deps"][id.name]; sf != nil {
				return c.evSpecFn(sf, x, env)
			}
		}
		// package-level function of the current package
		if env.pkg != nil {
			if o, ok := env.pkg.Scope().Lookup(id.name).(*types.Func); ok {
				return c.evPureCall(o, nil, x.args, env)
			}
		}
		c.efail("unknown function %s", id.name)
	}
	if sel, ok := x.fun.(*eSel); ok {
		// pkg.Func(...)
		if id, ok := sel.x.(*eIdent); ok {
			_, isVar := env.vars[id.name]
			_, isB := env.bound[id.name]
			_, isG := c.ghosts[id.name]
			if !isVar && !isB && !isG && len(c.names[id.name]) == 0 {
				if p := c.findPkg(id.name, env.pkg); p != nil {
					if o, ok := p.Scope().Lookup(sel.name).(*types.Func); ok {
						return c.evPureCall(o, nil, x.args, env)
					}
					c.efail("unknown function %s.%s", id.name, sel.name)
				}
			}
		}
		// method call
		recv := c.ev(sel.x, env)
		obj, idx, _ := types.LookupFieldOrMethod(recv.T, true, env.pkg, sel.name)
		if obj == nil {
			obj = lookupMethodAnyPkg(recv.T, sel.name)
			idx = nil
		}
		if m, ok := obj.(*types.Func); ok {
			if len(idx) > 1 {
				// promoted through embedded fields: the receiver is the embedded field
				recv = c.fieldOf(recv, idx[:len(idx)-1], env)
			}
			return c.evPureCall(m, recv, x.args, env)
		}
		c.efail("unknown method %s on %s", sel.name, recv.T)
	}
	c.efail("unsupported call")
	return nil
}

func lookupMethodAnyPkg(T types.Type, name string) types.Object {
	for _, t := range []types.Type{T, types.NewPointer(T)} {
		ms := types.NewMethodSet(t)
		for i := 0; i < ms.Len(); i++ {
			if ms.At(i).Obj().Name() == name {
				return ms.At(i).Obj()
			}
		}
	}
	return nil
}

// pureName gives the uninterpreted-function name used for calls to f, both
// from contracts and from executed code, so facts line up.
func pureName(f *types.Func, recvT types.Type) string {
	sig := f.Type().(*types.Signature)
	if sig.Recv() != nil {
		rt := sig.Recv().Type()
		if _, isI := rt.Underlying().(*types.Interface); isI && recvT != nil {
			// interface method: name by the interface that declares it
			return "(" + typeKey(recvT) + ")." + f.Name()
		}
		return "(" + typeKey(rt) + ")." + f.Name()
	}
	return f.FullName()
}

func (c *FnCtx) evPureCall(f *types.Func, recv *Val, args []specExpr, env *evalEnv) *Val {
	sig := f.Type().(*types.Signature)
	var vals []*Val
	var recvT types.Type
	if recv != nil {
		recvT = sig.Recv().Type()
		if c.isIface(recv.T) {
			recvT = recv.T
			if n := ifaceDeclaring(recv.T, f.Name()); n != nil {
				recvT = n
			}
		} else if _, isP := recvT.Underlying().(*types.Pointer); isP {
			if _, vp := types.Unalias(recv.T).Underlying().(*types.Pointer); !vp {
				c.efail("method %s needs pointer receiver", f.Name())
			}
		}
		vals = append(vals, recv)
	}
	for _, a := range args {
		vals = append(vals, c.ev(a, env))
	}
	// getters of /repo and interface methods implemented only by getters are evaluated by
	// executing their code (same as the executor does for calls), not by a symbol
	if recv != nil && f.Pkg() != nil && strings.HasPrefix(f.Pkg().Path(), repoMod) {
		if c.isIface(recv.T) {
			if r, ok := c.dispatchInline(c.state(env), recv, f.Name(), vals[1:]); ok {
				return r
			}
		} else if sf := c.L.prog.FuncValue(f); sf != nil {
			if sp := c.specOf(sf); sp == nil || !sp.pure {
				if r, ok := c.inlineSimple(c.state(env), sf, vals); ok {
					return r
				}
			}
		}
	}
	full := pureName(f, recvT)
	// heap-reading pure functions of /repo take their `reads` heaps as extra arguments
	v := c.applyPureReads(c.state(env), full, f, sig, recvT, vals)
	c.instantiatePure(f, vals, v, env)
	return v
}

// instantiatePure adds, for one application of a pure /repo function inside a
// contract expression, the callee's postconditions instantiated at these
// arguments (requires ==> ensures). The callee's contract is verified on its own.
func (c *FnCtx) instantiatePure(f *types.Func, vals []*Val, res *Val, env *evalEnv) {
	if f.Pkg() == nil || !strings.HasPrefix(f.Pkg().Path(), repoMod) || env.depth > 1 {
		return
	}
	if c.qDepth > 0 {
		// only ground applications: a universally quantified copy of the callee's contract
		// would also range over ill-typed values of the bound variables
		return
	}
	sf := c.L.prog.FuncValue(f)
	if sf == nil {
		return
	}
	sp := c.specOf(sf)
	if sp == nil || !sp.pure || len(sp.ensures) == 0 || len(sf.Params) != len(vals) {
		return
	}
	if c.spec != nil && c.spec.opaque[sf.Name()] {
		return
	}
	key := "purei:" + res.S
	if c.assumed[key] {
		return
	}
	c.assumed[key] = true
	n := &evalEnv{vars: map[string]*Val{}, st: c.state(env), old: c.state(env), pkg: f.Pkg(), depth: env.depth + 1, result: []*Val{res}}
	for i, p := range sf.Params {
		a := vals[i]
		if a.T == nil {
			if a.S == "nil" {
				a = c.mk(p.Type(), c.zero(p.Type()))
			} else {
				a = c.mk(p.Type(), a.S)
			}
		}
		n.vars[p.Name()] = &Val{T: p.Type(), S: c.coerce(a, p.Type())}
	}
	rs := sf.Signature.Results()
	for i := 0; i < rs.Len(); i++ {
		n.resNm = append(n.resNm, rs.At(i).Name())
	}
	saveNames := c.names
	c.names = map[string][]ssa.Value{}
	defer func() { c.names = saveNames }()
	var reqs []Term
	for _, r := range sp.requires {
		t, err := c.evalBool(r.expr, n)
		if err != nil {
			return
		}
		reqs = append(reqs, t)
	}
	for _, e := range sp.ensures {
		if e.cover || hasCalled(e.expr) {
			continue
		}
		t, err := c.evalBool(e.expr, n)
		if err != nil {
			continue
		}
		c.assume(implies(and(reqs...), t))
	}
}

// ifaceDeclaring: canonical interface type for naming an interface method, so
// that ssa.Value.Type and ssa.Instruction... share nothing by accident but
// identical static types share the symbol.
func ifaceDeclaring(T types.Type, method string) types.Type {
	return T
}

func (c *FnCtx) evSpecFn(sf *specFunc, x *eCall, env *evalEnv) *Val {
	if sf.body == nil {
		// uninterpreted ghost function
		var sorts []string
		var ts []Term
		if len(x.args) != len(sf.params) {
			c.efail("spec function %s: arity", sf.name)
		}
		for i, p := range sf.params {
			v := c.ev(x.args[i], env)
			T := c.resolveType(p.typ, env.pkg)
			sorts = append(sorts, c.sortOf(T))
			switch {
			case v.T == nil && v.S == "nil":
				ts = append(ts, c.zero(T))
			case v.T != nil && c.isIface(T) && !c.isIface(v.T):
				ts = append(ts, c.box(v))
			default:
				ts = append(ts, v.S)
			}
		}
		RT := c.resolveType(sf.result, env.pkg)
		f := "ghost." + sym(sf.name)
		c.declare(f, fmt.Sprintf("(declare-fun %s (%s) %s)", f, strings.Join(sorts, " "), c.sortOf(RT)))
		r := c.mk(RT, app(f, ts...))
		return r
	}
	if env.depth > 8 {
		c.efail("spec function recursion too deep: %s", sf.name)
	}
	if len(x.args) != len(sf.params) {
		c.efail("spec function %s: arity", sf.name)
	}
	n := *env
	n.depth++
	n.bound = map[string]*Val{}
	for k, v := range env.bound {
		n.bound[k] = v
	}
	for i, p := range sf.params {
		v := c.ev(x.args[i], env)
		T := c.resolveType(p.typ, env.pkg)
		if v.T == nil {
			if v.S == "nil" {
				v = c.mk(T, c.zero(T))
			} else {
				v = c.mk(T, v.S)
			}
		} else if c.isIface(T) && !c.isIface(v.T) {
			v = c.mk(T, c.box(v))
		}
		n.bound[p.name] = v
	}
	// parameters shadow everything: evaluate the body with vars hidden
	r := c.ev(sf.body, &n)
	return r
}

func (c *FnCtx) mapLen(st *State, m *Val) Term {
	K, V := mapKV(m.T)
	dn, ds, _, _ := c.mapHeaps(K, V)
	d := c.heapGet(st, dn, ds)
	f := "maplen." + sym(c.sortOf(K))
	if !c.declared[f] {
		c.declare(f, fmt.Sprintf("(declare-fun %s ((Array %s Bool)) Int)", f, c.sortOf(K)))
		// the empty map has length 0
		c.asserts = append(c.asserts, eq(app(f, fmt.Sprintf("((as const (Array %s Bool)) false)", c.sortOf(K))), "0"))
		// a map holding some key is not empty
		c.asserts = append(c.asserts, fmt.Sprintf("(forall ((d (Array %s Bool)) (k %s)) (! (=> (select d k) (> (%s d) 0)) :pattern ((%s d) (select d k))))", c.sortOf(K), c.sortOf(K), f, f))
	}
	t := app(f, app("select", d, m.S))
	key := "maplen:" + t
	if !c.assumed[key] {
		c.assumed[key] = true
		c.assume(app("<=", "0", t))
	}
	return t
}

// exprTextFull renders simple designator expressions back to text: elems(*Node), T.f, map(K;V).
func exprTextFull(e specExpr) string {
	switch x := e.(type) {
	case *eIdent:
		return x.name
	case *eSel:
		return exprTextFull(x.x) + "." + x.name
	case *eType:
		return x.typ.String()
	case *eUnary:
		return x.op + exprTextFull(x.x)
	case *eCall:
		var as []string
		for _, a := range x.args {
			as = append(as, exprTextFull(a))
		}
		return exprTextFull(x.fun) + "(" + strings.Join(as, ";") + ")"
	case *eInt:
		return x.v
	case *eStr:
		return strconv.Quote(x.v)
	case *eIndex:
		return exprTextFull(x.x) + "[" + exprTextFull(x.i) + "]"
	case *eBinary:
		return "(" + exprTextFull(x.x) + " " + x.op + " " + exprTextFull(x.y) + ")"
	case *eQuant:
		q := "exists"
		if x.forall {
			q = "forall"
		}
		for _, v := range x.vars {
			q += " " + v.name + ":" + v.typ.String()
		}
		return "(" + q + " :: " + exprTextFull(x.body) + ")"
	case *eTypeAssert:
		return exprTextFull(x.x) + ".(" + x.typ.String() + ")"
	case *eWild:
		return "_"
	case *eSlice:
		t := exprTextFull(x.x) + "["
		if x.lo != nil {
			t += exprTextFull(x.lo)
		}
		t += ":"
		if x.hi != nil {
			t += exprTextFull(x.hi)
		}
		return t + "]"
	}
	return fmt.Sprintf("?%p", e)
}
