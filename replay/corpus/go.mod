module govcwitness

go 1.22
