// Witness corpus for replaying form-A obligations (one obligation = one ssa
// instruction kind + operand slot) against the real functions of /repo. Each
// function uses one of its PARAMETERS in exactly one operand slot of one
// instruction, so "the real function handles this slot" has a discriminating test.
package main

import "fmt"

type T struct {
	A int
	P *int
	S []int
	M map[string]int
}

type I interface{ M(x int) int }

type J interface {
	I
	N()
}

type impl struct{ k int }

func (i impl) M(x int) int { return x + i.k }
func (i impl) N()          {}

var G int
var GP *int

func sinkInt(int)             {}
func sinkAny(any)             {}
func two() (int, error)       { return 1, nil }
func callee(a, b int) int     { return a - b }
func variadic(xs ...int)      {}
func fnval(f func(int))       {}
func retTwo(a int) (int, int) { return a, a }

func binopX(a int) int              { return a + 1 }
func binopY(b int) int              { return 1 - b }
func unopNeg(a int) int             { return -a }
func unopDeref(p *int) int          { return *p }
func unopRecv(c chan int) int       { return <-c }
func unopNot(b bool) bool           { return !b }
func storeVal(v int)                { GP = new(int); *GP = v }
func storeAddr(p *int)              { *p = 3 }
func callArg0(a int) int            { return callee(a, 2) }
func callArg1(b int) int            { return callee(2, b) }
func callValue(f func(int) int) int { return f(3) }
func callInvokeRecv(i I) int        { return i.M(4) }
func callInvokeArg(i impl, x int) int {
	var j I = i
	return j.M(x)
}
func goArg(a int)         { go sinkInt(a) }
func goValue(f func())    { go f() }
func goInvoke(j J)        { go j.N() }
func deferArg(a int)      { defer sinkInt(a) }
func deferValue(f func()) { defer f() }
func sendVal(c chan int, v int) {
	cc := make(chan int, 1)
	_ = c
	cc <- v
}
func sendChan(c chan int)           { c <- 1 }
func mapUpdateMap(m map[string]int) { m["k"] = 1 }
func mapUpdateKey(k string) {
	m := map[string]int{}
	m[k] = 1
	_ = m
}
func mapUpdateVal(v int) {
	m := map[string]int{}
	m["k"] = v
	_ = m
}
func lookupX(m map[string]int) int { return m["k"] }
func lookupIndex(k string) int {
	m := map[string]int{"a": 1}
	return m[k]
}
func lookupString(s string) byte { return s[0] }
func indexAddrX(s []int) int     { return s[0] }
func indexAddrIndex(i int) int {
	s := []int{1, 2, 3}
	return s[i]
}
func indexArr(a [3]int) int { return a[1] }
func indexArrIdx(i int) int {
	return [3]int{1, 2, 3}[i]
}
func fieldX(t T) int       { return t.A }
func fieldAddrX(t *T) int  { return t.A }
func sliceX(s []int) []int { return s[1:] }
func sliceLow(i int) []int {
	s := []int{1, 2, 3}
	return s[i:]
}
func sliceHigh(i int) []int {
	s := []int{1, 2, 3}
	return s[:i]
}
func sliceMax(i int) []int {
	s := []int{1, 2, 3}
	return s[0:1:i]
}
func makeInterfaceX(a int) any         { return a }
func changeInterfaceX(j J) I           { return j }
func changeTypeX(a int) myInt          { return myInt(a) }
func convertX(a int) float64           { return float64(a) }
func sliceToArrayPtr(s []int) *[2]int  { return (*[2]int)(s) }
func typeAssertX(x any) int            { return x.(int) }
func typeAssertOk(x any) bool          { _, ok := x.(int); return ok }
func extractTuple() int                { a, _ := two(); return a }
func makeSliceLen(n int) []int         { return make([]int, n) }
func makeSliceCap(n int) []int         { return make([]int, 0, n) }
func makeMapReserve(n int) map[int]int { return make(map[int]int, n) }
func makeChanSize(n int) chan int      { return make(chan int, n) }
func makeClosureBinding(a int) func() int {
	return func() int { return a }
}
func rangeX(m map[string]int) int {
	n := 0
	for range m {
		n++
	}
	return n
}
func rangeStr(s string) int {
	n := 0
	for range s {
		n++
	}
	return n
}
func nextIter(m map[string]int) string {
	for k := range m {
		return k
	}
	return ""
}
func ifCond(b bool) int {
	if b {
		return 1
	}
	return 2
}
func returnRes(a int) int { return a }
func panicX(e error)      { panic(e) }
func phiEdge0(a int, c bool) int {
	x := 0
	if c {
		x = a
	}
	return x
}
func phiEdge1(b int, c bool) int {
	x := b
	if c {
		x = 7
	}
	return x
}
func phiEdge3(a, b, d int, k int) int {
	x := 0
	switch k {
	case 1:
		x = a
	case 2:
		x = b
	case 3:
		x = d
	}
	return x
}
func selectSend(c chan int, v int) {
	select {
	case c <- v:
	default:
	}
}
func selectRecv(c chan int) int {
	select {
	case x := <-c:
		return x
	default:
		return 0
	}
}
func variadicArg(a int)      { variadic(a) }
func fieldStore(t *T, v int) { t.A = v }
func closureCall(a int) int {
	f := func(x int) int { return x + 1 }
	return f(a)
}
func builtinLen(s []int) int                   { return len(s) }
func builtinAppend(s []int, v int) []int       { return append(s, v) }
func builtinCopy(d, s []int) int               { return copy(d, s) }
func builtinDelete(m map[string]int, k string) { delete(m, k) }
func builtinMin(a, b, c int) int               { return min(a, b, c) }

type myInt int

func main() {
	fmt.Println(binopX(1), binopY(2), unopNeg(3))
	fnval(sinkInt)
	sinkAny(retTwo)
}
