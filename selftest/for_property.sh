#!/bin/sh
# usage: selftest/for_property.sh <Cnn>
# Runs every must-fail patch of the property (inverse fixes, targeted breakers and
# the seeded changes the check is known to catch) against a scratch copy of /repo's
# CURRENT working tree and reports whether the expected obligation is violated.
# Prints one line per patch; exit status 0 always (a patch that no longer applies
# to the current tree is skipped).
prop="$1"
here="$(cd "$(dirname "$0")/.." && pwd)"
cd "$here" || exit 0
export GOVC_NOREPLAY=1
list="$(mktemp /tmp/govc-mustfail.XXXXXX)"
trap 'rm -f "$list"' EXIT
{ grep -v '^#' selftest/mutants/MANIFEST.tsv | awk -F'\t' -v p="$prop" '$2==p {print "selftest/mutants/"$1"\t"$3"\t"p}';
  grep -v '^#' selftest/seeded.tsv | awk -F'\t' -v p="$prop" '$2==p {print $1"\t"$3"\t"p}'; } > "$list"
[ -s "$list" ] || exit 0
# up to 4 patches at a time, each on its own scratch copy
tr '\t' ' ' < "$list" | xargs -P 4 -L 1 sh -c '
  patch="$0"; expect="$1"; prop="$2"
  [ -f "$patch" ] || exit 0
  out="$(sh selftest/run_mutant.sh "$patch" "$prop" "$expect" 2>&1)"
  case "$out" in
    *"patch does not apply"*) echo "MUSTFAIL $patch: skipped (does not apply to this tree)";;
    *": caught"*) echo "MUSTFAIL $patch: caught ($expect)";;
    *) echo "MUSTFAIL $patch: NOT caught ($expect)";;
  esac' 
exit 0
