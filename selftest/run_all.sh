#!/bin/sh
# Runs every mutant of selftest/mutants/MANIFEST.tsv (4 at a time); exit 1 if any is not caught.
cd "$(dirname "$0")/.." || exit 2
fail=0
grep -v '^#' selftest/mutants/MANIFEST.tsv | while IFS="$(printf '\t')" read -r patch prop expect what; do
  [ -z "$patch" ] && continue
  echo "$patch	$prop	$expect"
done > /tmp/govc-mutants.$$
out=$(cat /tmp/govc-mutants.$$ | xargs -P 4 -L 1 sh -c 'selftest/run_mutant.sh "selftest/mutants/$0" "$1" "$2"' 2>&1)
rm -f /tmp/govc-mutants.$$
echo "$out"
echo "$out" | grep -q "NOT caught\|does not apply" && exit 1
exit 0
