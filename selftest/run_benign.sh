#!/bin/sh
# usage: selftest/run_benign.sh <patch.diff> <Cnn>
# Applies a SEMANTICS-PRESERVING patch to a scratch copy of /repo (removed afterwards)
# and runs the property's check against it: the check must not raise an alarm
# (exit 0, no VIOLATION line). Contract errors / obligations that no longer bind are
# printed (lost coverage is not an alarm, but it is reported).
set -u
patch="$(realpath "$1")"; prop="$2"
here="$(cd "$(dirname "$0")/.." && pwd)"
scr="$(mktemp -d /tmp/govc-benign.XXXXXX)"
trap 'rm -rf "$scr"' EXIT
rsync -a --exclude .git /repo/ "$scr/repo/"
mkdir -p "$scr/vd"
cp -r "$here/contracts" "$scr/vd/" 2>/dev/null
cp -r "$here/baseline" "$scr/vd/" 2>/dev/null
cp "$here/known_findings.json" "$scr/vd/" 2>/dev/null
(cd "$scr/repo" && patch -p1 -s < "$patch") || { echo "BENIGN $(basename "$patch"): patch does not apply (skipped)"; exit 2; }
out="$(GOVC_NOREPLAY=1 VERIF_REPO="$scr/repo" VERIF_DIR="$scr/vd" "$here/bin/govc" check "$prop" --tier quick 2>&1)"; rc=$?
lost="$(echo "$out" | grep -c -E '^CONTRACT-ERROR|^NOTE: baseline obligation')"
if [ $rc -eq 0 ] && ! echo "$out" | grep -q '^VIOLATION'; then
  echo "BENIGN $(basename "$patch"): no alarm (lost-coverage lines: $lost)"
  exit 0
fi
echo "BENIGN $(basename "$patch"): FALSE ALARM; output:"
echo "$out" | grep -E '^VIOLATION|^CONTRACT-ERROR|tier=' | head -8
exit 1
