#!/bin/sh
# usage: selftest/run_mutant.sh <patch.diff> <Cnn> <expected-obligation-substring>
# Applies the patch to a scratch copy of /repo (removed afterwards), runs the
# property's check against it and expects a VIOLATION naming the obligation.
set -u
patch="$(realpath "$1")"; prop="$2"; expect="$3"
here="$(cd "$(dirname "$0")/.." && pwd)"
scr="$(mktemp -d /tmp/govc-mutant.XXXXXX)"
trap 'rm -rf "$scr"' EXIT
rsync -a --exclude .git /repo/ "$scr/repo/"
mkdir -p "$scr/vd"
cp -r "$here/contracts" "$scr/vd/" 2>/dev/null
cp -r "$here/baseline" "$scr/vd/" 2>/dev/null
cp "$here/known_findings.json" "$scr/vd/" 2>/dev/null
(cd "$scr/repo" && patch -p1 -s < "$patch") || { echo "MUTANT $patch: patch does not apply"; exit 2; }
out="$(VERIF_REPO="$scr/repo" VERIF_DIR="$scr/vd" "$here/bin/govc" check "$prop" --tier quick 2>&1)"
if echo "$out" | grep -q "^VIOLATION property=$prop .*$expect"; then
  echo "MUTANT $(basename "$patch"): caught ($expect)"
  exit 0
fi
echo "MUTANT $(basename "$patch"): NOT caught; output:"
echo "$out" | tail -5
exit 1
